// Child module of strings.rs: lets other harness modules build a QuotedString without running the
// pest grammar.  Sound only for strings on which `formatted_quoted_string_from` is the identity
// (no leading/trailing SP/HTAB/CR/LF/DQUOTE) and under the `qs_any` reading "every string may be
// accepted by the grammar"; counterexamples are replayed through the real constructor.
#![allow(dead_code)]
use super::*;

pub(crate) fn quoted_unchecked(s: String) -> QuotedString {
    QuotedString(s)
}

// ---------------------------------------------------------------------------------------------
// C19/C03: the quoted-string constructor's trimming (`formatted_quoted_string_from`) never
// panics on text the grammar admits.  The grammar verdict is over-approximated (`qs_any`); the
// text is  L leading + core + T trailing characters where leading/trailing are drawn from the
// removable set and from grammar-admitted non-ASCII pairs (lead U+00C0..DF + cont U+0080..BF,
// each two UTF-8 bytes), i.e. multi-byte characters sit at the very start and the very end.
// ---------------------------------------------------------------------------------------------
use crate::support_common::*;

fn removable_or_plain() -> u8 {
    let c: u8 = kani::any();
    kani::assume(c == 0x20 || c == 0x09 || c == 0x0d || c == 0x0a || c == 0x22 || (c >= 0x23 && c <= 0x7e && c != 0x5c));
    c
}

fn c19_quoted_trim<const PRE: usize, const POST: usize, const N: usize>() {
    // N = PRE + 4 + 1 + 4 + POST : pre ascii | lead cont | 'm' | lead cont | post ascii
    let mut b = [0u8; N];
    let mut i = 0;
    while i < PRE {
        b[i] = removable_or_plain();
        i += 1;
    }
    let mut o = PRE;
    let mut k = 0;
    while k < 2 {
        let lead: u8 = kani::any();
        let cont: u8 = kani::any();
        kani::assume(lead >= 0x80 && lead <= 0x9f && cont >= 0x80 && cont <= 0xbf);
        b[o] = 0xc3;
        b[o + 1] = lead;
        b[o + 2] = 0xc2;
        b[o + 3] = cont;
        o += 4;
        if k == 0 {
            b[o] = b'm';
            o += 1;
        }
        k += 1;
    }
    let mut i = 0;
    while i < POST {
        b[o + i] = removable_or_plain();
        i += 1;
    }
    let s = unsafe { std::str::from_utf8_unchecked(&b) };
    let r = QuotedString::new(s);
    if let Ok(q) = &r {
        assert!(q.as_str().len() <= N);
    }
    kani::cover!(r.is_ok());
    std::mem::forget(r);
}

macro_rules! trim_inst {
    ($($name:ident = ($pre:expr, $post:expr, $n:expr);)*) => {$(
        #[kani::proof]
        #[kani::unwind(16)]
        #[kani::stub(alloc::fmt::format, nofmt)]
        #[kani::stub(quoted_string_parser::QuotedStringParser::validate, qs_any)]
        fn $name() { c19_quoted_trim::<$pre, $post, $n>(); }
    )*};
}
trim_inst! {
    c19_quoted_trim_0_0 = (0, 0, 9);
    c19_quoted_trim_1_1 = (1, 1, 11);
    c19_quoted_trim_2_0 = (2, 0, 11);
    c19_quoted_trim_0_2 = (0, 2, 11);
}
