// C07 (decision logic) and C13 (attribute-list construction) on the REAL st_cred_mech.rs,
// integrity.rs, message.rs and the real protected iterator of lib.rs, compiled against the
// attribute-level environment model of stun-rs.  Child module of st_cred_mech.rs.
#![allow(dead_code, unused_imports, static_mut_refs)]
use super::*;
use crate::support_time::nofmt;
use stun_rs::attrs_model::{Fingerprint, Other, StunAttribute as SA};
use stun_rs::{MessageMethod, StunAttribute, ENV2};

const KEY_OK: u8 = 1; // id of HMACKey::new_short_term(configured password)

fn any_integrity() -> Option<Integrity> {
    let k: u8 = kani::any();
    kani::assume(k < 3);
    match k {
        0 => None,
        1 => Some(Integrity::MessageIntegrity),
        _ => Some(Integrity::MessageIntegritySha256),
    }
}
fn mk(integrity: Option<Integrity>, reliable: bool) -> ShortTermCredentialClient {
    ShortTermCredentialClient::new(UserName(1), HMACKey { id: KEY_OK }, integrity, reliable)
}
fn any_response_class() -> MessageClass {
    if kani::any() {
        MessageClass::SuccessResponse
    } else {
        MessageClass::ErrorResponse
    }
}
/// an arbitrary received attribute of the kinds that matter here
fn any_rx_attr() -> StunAttribute {
    let k: u8 = kani::any();
    kani::assume(k < 4);
    let key: u8 = kani::any();
    kani::assume(key <= 2); // 0 = garbage MAC, 1 = MAC under the configured password, 2 = under another password
    match k {
        0 => SA::MessageIntegrity(MessageIntegrity::Decodable(key)),
        1 => SA::MessageIntegritySha256(MessageIntegritySha256::Decodable(key)),
        2 => SA::Fingerprint(Fingerprint::Decodable(kani::any())),
        _ => SA::Other(Other { code: 0x8022, val: kani::any() }),
    }
}
fn msg_of(class: MessageClass, tid: u8, attrs: &[StunAttribute]) -> StunMessage {
    let mut m = StunMessage::light(class, TransactionId(tid));
    let mut i = 0;
    while i < attrs.len() {
        m.attrs.push(attrs[i]);
        i += 1;
    }
    m
}

/// reference: the integrity attributes a receiver may look at (RFC 8489 §14.5/14.6 ordering rule,
/// same rule as C09) — first admitted MI and first admitted SHA256
fn admitted_integrity(attrs: &[StunAttribute]) -> (Option<u8>, Option<u8>) {
    let (mut mi, mut sha, mut fp) = (None, None, false);
    let mut i = 0;
    while i < attrs.len() {
        match attrs[i] {
            SA::MessageIntegrity(MessageIntegrity::Decodable(k)) => {
                if mi.is_none() && sha.is_none() && !fp {
                    mi = Some(k);
                }
            }
            SA::MessageIntegritySha256(MessageIntegritySha256::Decodable(k)) => {
                if sha.is_none() && !fp {
                    sha = Some(k);
                }
            }
            SA::Fingerprint(_) => fp = true,
            _ => {}
        }
        i += 1;
    }
    (mi, sha)
}

// ---------------------------------------------------------------------------------------------
// C07: one received message from an arbitrary configured/learned state
// ---------------------------------------------------------------------------------------------
fn c07_recv<const N: usize>() {
    let pre = any_integrity();
    let reliable: bool = kani::any();
    let mut c = mk(pre, reliable);
    let indication: bool = kani::any();
    let class = if indication { MessageClass::Indication } else { any_response_class() };
    let tid: u8 = 7;
    let mut attrs = [SA::Other(Other { code: 0x8022, val: 0 }); N];
    let mut i = 0;
    while i < N {
        attrs[i] = any_rx_attr();
        i += 1;
    }
    unsafe {
        ENV2.input_text_ok = kani::any();
    }
    let input_ok = unsafe { ENV2.input_text_ok };
    let msg = msg_of(class, tid, &attrs);
    let r = c.recv_message(&[0u8; 20], &msg);

    let (mi, sha) = admitted_integrity(&attrs);
    let both = mi.is_some() && sha.is_some();
    let selected: Option<(u8, bool)> = match pre {
        Some(Integrity::MessageIntegrity) => mi.map(|k| (k, false)),
        Some(Integrity::MessageIntegritySha256) => sha.map(|k| (k, true)),
        None => match (mi, sha) {
            (Some(k), _) => Some((k, false)),
            (None, Some(k)) => Some((k, true)),
            _ => None,
        },
    };
    let verifies = matches!(selected, Some((k, _)) if k == KEY_OK) && input_ok;
    let accepted = verifies && (indication || !both);
    assert!(r.is_ok() == accepted, "C07: delivered only with integrity of the agreed (or first) algorithm that verifies under the configured password; responses carrying both are rejected");
    if accepted {
        if !indication && pre.is_none() {
            let learned = if matches!(selected, Some((_, true))) { Integrity::MessageIntegritySha256 } else { Integrity::MessageIntegrity };
            assert!(c.integrity == Some(learned), "C07: the algorithm is learned from an authenticated response");
        } else {
            assert!(c.integrity == pre, "C07: never learned from an indication, never changed once agreed");
        }
        assert!(!c.signal_protection_violated_on_timeout(&TransactionId(tid)));
    } else {
        assert!(c.integrity == pre, "C07/C17: a rejected message does not change the agreed algorithm");
        let marker = c.signal_protection_violated_on_timeout(&TransactionId(tid));
        if indication {
            assert!(r == Err(IntegrityError::Discarded), "C07: a bad indication is dropped, never a transaction outcome");
            assert!(!marker, "C17: no marker for indications");
        } else if both {
            assert!(r.is_err());
        } else if reliable {
            assert!(r == Err(IntegrityError::ProtectionViolated), "C07: reliable transport: protection violated ends the transaction");
            assert!(!marker);
        } else {
            assert!(r == Err(IntegrityError::Discarded), "C07: unreliable transport: ignored, retransmissions continue");
            assert!(marker, "C07/C17: ... and the eventual time-out is reported as protection violated (the documented marker)");
        }
    }
    kani::cover!(accepted && pre.is_none() && !indication);
    kani::cover!(!accepted && !indication && !reliable && !both);
    std::mem::forget(msg);
    std::mem::forget(c);
}

// two replies for the same transaction on unreliable transport: rejected then acceptable
fn c07_two_replies() {
    let pre = any_integrity();
    let mut c = mk(pre, false);
    let tid: u8 = 7;
    unsafe {
        ENV2.input_text_ok = true;
    }
    let a1 = [any_rx_attr()];
    let m1 = msg_of(any_response_class(), tid, &a1);
    let r1 = c.recv_message(&[0u8; 20], &m1);
    let a2 = [any_rx_attr()];
    let m2 = msg_of(any_response_class(), tid, &a2);
    let mid = c.integrity;
    let r2 = c.recv_message(&[0u8; 20], &m2);
    if r1.is_err() {
        assert!(mid == pre, "C07: a rejected reply is as if never received");
        // the second reply is judged exactly as if it were the first
        let (mi, sha) = admitted_integrity(&a2);
        let sel = match pre {
            Some(Integrity::MessageIntegrity) => mi,
            Some(Integrity::MessageIntegritySha256) => sha,
            None => mi.or(sha),
        };
        assert!(r2.is_ok() == (sel == Some(KEY_OK)), "C07: rejected-then-acceptable: the acceptable reply is delivered");
        let marker = c.signal_protection_violated_on_timeout(&TransactionId(tid));
        assert!(marker == r2.is_err(), "C07: the marker survives only if no acceptable reply arrived");
    }
    kani::cover!(r1.is_err() && r2.is_ok());
    std::mem::forget(m1);
    std::mem::forget(m2);
    std::mem::forget(c);
}

// ---------------------------------------------------------------------------------------------
// C13 / C07: attributes of an outgoing request or indication
// ---------------------------------------------------------------------------------------------
/// application attribute of a CONCRETE kind (values symbolic).  The kind pattern is concrete per
/// harness instance: a symbolic kind makes Vec::remove / indexed replacement run with symbolic
/// indices into the heap-allocated list, which exhausts the solver (probe: N = 2, 20 GB).
fn app_attr(k: u8) -> StunAttribute {
    match k {
        0 => SA::Other(Other { code: 0x8022, val: kani::any() }),
        1 => SA::Other(Other { code: 0x0024, val: kani::any() }),
        2 => SA::UserName(UserName(3)),
        3 => SA::MessageIntegrity(MessageIntegrity::Encodable(HMACKey { id: 9 })),
        4 => SA::MessageIntegritySha256(MessageIntegritySha256::Encodable(HMACKey { id: 9 })),
        _ => SA::Fingerprint(Fingerprint::Encodable),
    }
}

fn c13_outgoing<const K0: u8, const K1: u8, const K2: u8>() {
    let pre = any_integrity();
    let c = mk(pre, kani::any());
    let mut app = crate::message::verif_message::attributes_with_capacity(8);
    let kinds = [K0, K1, K2];
    let mut given = [SA::Other(Other { code: 1, val: 0 }); 3];
    let mut ng = 0usize;
    let mut i = 0;
    while i < 3 {
        if kinds[i] != 9 {
            given[ng] = app_attr(kinds[i]);
            app.add(given[ng]);
            ng += 1;
        }
        i += 1;
    }
    c.add_attributes(&mut app);
    let out: Vec<StunAttribute> = app.into();
    // reference: ordinary application attributes, one per type, first-insertion order, last value
    let mut want = [SA::Other(Other { code: 1, val: 0 }); 8];
    let mut n = 0usize;
    let mut app_fp = false;
    let mut i = 0;
    while i < ng {
        match given[i] {
            SA::Other(o) => {
                let mut found = false;
                let mut k = 0;
                while k < n {
                    if let SA::Other(p) = want[k] {
                        if p.code == o.code {
                            want[k] = given[i];
                            found = true;
                        }
                    }
                    k += 1;
                }
                if !found {
                    want[n] = given[i];
                    n += 1;
                }
            }
            SA::Fingerprint(_) => app_fp = true,
            _ => {} // credential / integrity attributes supplied by the application are replaced
        }
        i += 1;
    }
    want[n] = SA::UserName(UserName(1));
    n += 1;
    let key = HMACKey { id: KEY_OK };
    if pre != Some(Integrity::MessageIntegritySha256) {
        want[n] = SA::MessageIntegrity(MessageIntegrity::Encodable(key));
        n += 1;
    }
    if pre != Some(Integrity::MessageIntegrity) {
        want[n] = SA::MessageIntegritySha256(MessageIntegritySha256::Encodable(key));
        n += 1;
    }
    if app_fp {
        want[n] = SA::Fingerprint(Fingerprint::Encodable);
        n += 1;
    }
    assert!(out.len() == n, "C13: application attributes (one per type), USERNAME, then at most one MI / SHA256 / FINGERPRINT");
    let nmax = (K0 != 9) as usize + (K1 != 9) as usize + (K2 != 9) as usize + 4;
    let mut k = 0;
    while k < nmax {
        if k < n && k < out.len() {
            assert!(out[k] == want[k], "C13/C07: order and values: application attributes in first-insertion order, the configured USERNAME, integrity under the configured key (application-supplied ones replaced), FINGERPRINT last");
        }
        k += 1;
    }
    std::mem::forget(out);
    std::mem::forget(c);
}

macro_rules! st_inst {
    ($($name:ident = $u:expr, $e:expr;)*) => {$(
        #[kani::proof]
        #[kani::unwind($u)]
        #[kani::stub(alloc::fmt::format, nofmt)]
        fn $name() { $e; }
    )*};
}
st_inst! {
    c07_recv_n0 = 5, c07_recv::<0>();
    c07_recv_n1 = 6, c07_recv::<1>();
    c07_recv_n2 = 7, c07_recv::<2>();
    c07_recv_n3 = 8, c07_recv::<3>();
    c07_two_replies_unreliable = 8, c07_two_replies();
    c13_outgoing_p999 = 6, c13_outgoing::<9, 9, 9>();
    c13_outgoing_p009 = 8, c13_outgoing::<0, 0, 9>();
    c13_outgoing_p019 = 8, c13_outgoing::<0, 1, 9>();
    c13_outgoing_p029 = 8, c13_outgoing::<0, 2, 9>();
    c13_outgoing_p039 = 8, c13_outgoing::<0, 3, 9>();
    c13_outgoing_p049 = 8, c13_outgoing::<0, 4, 9>();
    c13_outgoing_p059 = 8, c13_outgoing::<0, 5, 9>();
    c13_outgoing_p109 = 8, c13_outgoing::<1, 0, 9>();
    c13_outgoing_p119 = 8, c13_outgoing::<1, 1, 9>();
    c13_outgoing_p129 = 8, c13_outgoing::<1, 2, 9>();
    c13_outgoing_p139 = 8, c13_outgoing::<1, 3, 9>();
    c13_outgoing_p149 = 8, c13_outgoing::<1, 4, 9>();
    c13_outgoing_p159 = 8, c13_outgoing::<1, 5, 9>();
    c13_outgoing_p209 = 8, c13_outgoing::<2, 0, 9>();
    c13_outgoing_p219 = 8, c13_outgoing::<2, 1, 9>();
    c13_outgoing_p229 = 8, c13_outgoing::<2, 2, 9>();
    c13_outgoing_p239 = 8, c13_outgoing::<2, 3, 9>();
    c13_outgoing_p249 = 8, c13_outgoing::<2, 4, 9>();
    c13_outgoing_p259 = 8, c13_outgoing::<2, 5, 9>();
    c13_outgoing_p309 = 8, c13_outgoing::<3, 0, 9>();
    c13_outgoing_p319 = 8, c13_outgoing::<3, 1, 9>();
    c13_outgoing_p329 = 8, c13_outgoing::<3, 2, 9>();
    c13_outgoing_p339 = 8, c13_outgoing::<3, 3, 9>();
    c13_outgoing_p349 = 8, c13_outgoing::<3, 4, 9>();
    c13_outgoing_p359 = 8, c13_outgoing::<3, 5, 9>();
    c13_outgoing_p409 = 8, c13_outgoing::<4, 0, 9>();
    c13_outgoing_p419 = 8, c13_outgoing::<4, 1, 9>();
    c13_outgoing_p429 = 8, c13_outgoing::<4, 2, 9>();
    c13_outgoing_p439 = 8, c13_outgoing::<4, 3, 9>();
    c13_outgoing_p449 = 8, c13_outgoing::<4, 4, 9>();
    c13_outgoing_p459 = 8, c13_outgoing::<4, 5, 9>();
    c13_outgoing_p509 = 8, c13_outgoing::<5, 0, 9>();
    c13_outgoing_p519 = 8, c13_outgoing::<5, 1, 9>();
    c13_outgoing_p529 = 8, c13_outgoing::<5, 2, 9>();
    c13_outgoing_p539 = 8, c13_outgoing::<5, 3, 9>();
    c13_outgoing_p549 = 8, c13_outgoing::<5, 4, 9>();
    c13_outgoing_p559 = 8, c13_outgoing::<5, 5, 9>();
    c13_outgoing_p010 = 9, c13_outgoing::<0, 1, 0>();
    c13_outgoing_p023 = 9, c13_outgoing::<0, 2, 3>();
    c13_outgoing_p204 = 9, c13_outgoing::<2, 0, 4>();
    c13_outgoing_p305 = 9, c13_outgoing::<3, 0, 5>();
    c13_outgoing_p450 = 9, c13_outgoing::<4, 5, 0>();
    c13_outgoing_p543 = 9, c13_outgoing::<5, 4, 3>();
    c13_outgoing_p112 = 9, c13_outgoing::<1, 1, 2>();
    c13_outgoing_p034 = 9, c13_outgoing::<0, 3, 4>();
    c13_outgoing_p220 = 9, c13_outgoing::<2, 2, 0>();
    c13_outgoing_p501 = 9, c13_outgoing::<5, 0, 1>();
    c13_outgoing_p345 = 9, c13_outgoing::<3, 4, 5>();
    c13_outgoing_p432 = 9, c13_outgoing::<4, 3, 2>();
}
