// Time without a clock (DESIGN Appendix A) and exact-arithmetic contract stubs for std.
#![allow(dead_code)]
use std::time::{Duration, Instant};

pub const NS: u64 = 1_000_000_000;

#[repr(C)]
#[derive(Clone, Copy)]
pub struct RawTs {
    pub sec: i64,
    pub nsec: u32,
    pub pad: u32,
}

/// An `Instant` built from (sec, nsec); arithmetic on it is std's real code.
pub fn instant_at(sec: i64, nsec: u32) -> Instant {
    unsafe { std::mem::transmute::<RawTs, Instant>(RawTs { sec, nsec, pad: 0 }) }
}

pub fn raw_of(i: &Instant) -> RawTs {
    unsafe { std::mem::transmute_copy(i) }
}

/// symbolic (sec, nsec) pair: only add/compare reach the solver
pub fn any_offset(max_secs: u64) -> Duration {
    let s: u64 = kani::any();
    let n: u32 = kani::any();
    kani::assume(s <= max_secs && n < 1_000_000_000);
    Duration::new(s, n)
}

pub fn ns_of(d: Duration) -> u64 {
    d.as_secs() * NS + d.subsec_nanos() as u64
}

/// Duration with the given nanoseconds, built by the division lemma (fresh q, r) instead of `/`.
pub fn dur_of_ns(ns: u64) -> Duration {
    let s: u64 = kani::any();
    let n: u32 = kani::any();
    kani::assume(n < 1_000_000_000 && s < 16);
    kani::assume(s * NS + n as u64 == ns);
    Duration::new(s, n)
}

/// Non-recursive replacement of `Instant::checked_duration_since` computing the same function
/// (std's `Timespec::sub_timespec` is recursive; CBMC unrolls it to the harness-wide bound).
pub fn cds_nonrecursive(this: &Instant, earlier: Instant) -> Option<Duration> {
    let a = raw_of(this);
    let b = raw_of(&earlier);
    if (a.sec, a.nsec) >= (b.sec, b.nsec) {
        let (s, n) = if a.nsec >= b.nsec {
            ((a.sec - b.sec) as u64, a.nsec - b.nsec)
        } else {
            ((a.sec - b.sec - 1) as u64, a.nsec + 1_000_000_000 - b.nsec)
        };
        Some(Duration::new(s, n))
    } else {
        None
    }
}

pub fn nofmt(_a: std::fmt::Arguments<'_>) -> String {
    String::new()
}
