//! Environment model of the `stun_rs` API surface that stun-agent's client.rs / timeout.rs /
//! events.rs import (DESIGN §1.3).  stun-rs is the *environment* of the agent: every function
//! here may do whatever the real codec can do, as far as the agent can observe it:
//!   * MessageDecoder::decode  -> Err, or a message of any class with any transaction id
//!   * MessageEncoder::encode  -> Err, or Ok(size <= buffer length)
//! The choices are made by the harness (it sets the `ENV` statics from kani::any()) so that the
//! harness knows which behaviour it is checking.  The real codec is verified separately on the
//! real stun-rs (C01-C04, C09, C10, C14, C18, C19).
#![allow(dead_code, static_mut_refs)]
use std::fmt;

#[derive(Debug)]
pub struct StunError;
impl fmt::Display for StunError {
    fn fmt(&self, _f: &mut fmt::Formatter) -> fmt::Result {
        Ok(())
    }
}

pub mod error {
    use std::fmt;
    #[derive(Debug)]
    pub struct StunEncodeError;
    impl fmt::Display for StunEncodeError {
        fn fmt(&self, _f: &mut fmt::Formatter) -> fmt::Result {
            Ok(())
        }
    }
    #[derive(Debug)]
    pub struct StunDecodeError;
    impl fmt::Display for StunDecodeError {
        fn fmt(&self, _f: &mut fmt::Formatter) -> fmt::Result {
            Ok(())
        }
    }
}

#[cfg(feature = "attrs")]
pub mod attributes {
    pub mod stun {
        pub use crate::attrs_model::nonce_cookie;
        pub use crate::attrs_model::{
            ErrorCodeAttr as ErrorCode, Fingerprint, MessageIntegrity, MessageIntegritySha256, Nonce, PasswordAlgorithm,
            PasswordAlgorithms, Realm, UserHash, UserName,
        };
    }
}
#[cfg(not(feature = "attrs"))]
pub mod attributes {
    pub mod stun {
        #[derive(Debug, Clone)]
        pub struct UserName;
        impl UserName {
            pub fn new<S: AsRef<str>>(_s: S) -> Result<Self, crate::StunError> {
                Ok(UserName)
            }
        }
    }
}

/// Transaction ids are small tokens; `Default` (the RNG in the real crate) hands out fresh,
/// pairwise distinct ids from a counter: "the RNG does not repeat an id" is an assumption.
#[derive(Clone, Copy, PartialEq, Eq, Hash, PartialOrd, Ord, Debug)]
pub struct TransactionId(pub u8);
pub static mut NEXT_TID: u8 = 0;
impl Default for TransactionId {
    fn default() -> Self {
        unsafe {
            NEXT_TID += 1;
            TransactionId(NEXT_TID)
        }
    }
}

#[derive(Debug, Clone, Copy, PartialEq, Eq)]
pub enum MessageClass {
    Request,
    Indication,
    SuccessResponse,
    ErrorResponse,
}

#[derive(Debug, Clone, Copy, PartialEq, Eq, Default)]
pub struct MessageMethod(pub u16);

/// a key is identified by what it was derived from (see the attribute-level part below)
#[derive(Debug, Clone, Copy, PartialEq, Eq)]
pub struct HMACKey {
    pub id: u8,
}
impl HMACKey {
    pub fn new_short_term<S: AsRef<str>>(_p: S) -> Result<Self, StunError> {
        Ok(HMACKey { id: 1 })
    }
}

/// In the `slice` build (feature `attrs` off) a message is just (class, transaction id): a Vec of
/// attributes inside every event's message makes the client glue queries 20x heavier (drop glue).
#[derive(Debug)]
pub struct StunMessage {
    pub class: MessageClass,
    pub tid: TransactionId,
    #[cfg(feature = "attrs")]
    pub method: MessageMethod,
    #[cfg(feature = "attrs")]
    pub attrs: Vec<StunAttribute>,
}
impl StunMessage {
    #[cfg(feature = "attrs")]
    pub fn light(class: MessageClass, tid: TransactionId) -> Self {
        StunMessage { class, tid, method: MessageMethod(0), attrs: Vec::with_capacity(8) }
    }
    #[cfg(not(feature = "attrs"))]
    pub fn light(class: MessageClass, tid: TransactionId) -> Self {
        StunMessage { class, tid }
    }
    pub fn class(&self) -> MessageClass {
        self.class
    }
    pub fn transaction_id(&self) -> &TransactionId {
        &self.tid
    }
}

/// What the environment does on the next calls; set by the harness.
pub struct Env {
    /// decode: None = undecodable bytes, Some = decoded header
    pub decode: Option<(MessageClass, TransactionId)>,
    /// encode fails (e.g. buffer too small)
    pub encode_fails: bool,
}
pub static mut ENV: Env = Env { decode: None, encode_fails: false };

#[derive(Debug, Default, Clone)]
pub struct MessageDecoder;
impl MessageDecoder {
    pub fn decode(&self, _buffer: &[u8]) -> Result<(StunMessage, usize), error::StunDecodeError> {
        match unsafe { ENV.decode } {
            None => Err(error::StunDecodeError),
            Some((class, tid)) => Ok((StunMessage::light(class, tid), 20)),
        }
    }
}

#[derive(Debug, Default, Clone)]
pub struct MessageEncoder;
impl MessageEncoder {
    pub fn encode(&self, buffer: &mut [u8], _msg: &StunMessage) -> Result<usize, error::StunEncodeError> {
        if buffer.len() < 20 || unsafe { ENV.encode_fails } {
            Err(error::StunEncodeError)
        } else {
            Ok(20)
        }
    }
}

#[cfg(feature = "attrs")]
mod attr_level {
    use super::*;
    // =============================================================================================
    // Attribute-level part of the environment model (used by the `agentshim` build: the whole real
    // stun-agent crate compiled against this crate).  Attribute values are small tokens:
    //   * identity of strings (user name, realm, nonce) = a token byte
    //   * a MAC "verifies under key K" = the attribute carries K's id; HMACKey ids are derived from
    //     what the real derivation depends on (short-term: the password; long-term: realm + algorithm)
    //   * get_input_text succeeds or not as the harness chooses
    // Cryptography and byte layouts are the real stun-rs's business (C01-C04, C10).
    // =============================================================================================
    pub const MESSAGE_HEADER_SIZE: usize = 20;

    #[derive(Debug)]
    pub struct MessageHeader<'a> {
        pub bits: u8,
        pub msg_type: u16,
        pub msg_length: u16,
        pub cookie: &'a [u8; 4],
        pub transaction_id: &'a [u8; 12],
    }
    impl<'a> std::convert::TryFrom<&'a [u8; MESSAGE_HEADER_SIZE]> for MessageHeader<'a> {
        type Error = StunError;
        fn try_from(b: &'a [u8; MESSAGE_HEADER_SIZE]) -> Result<Self, StunError> {
            let t = ((b[0] as u16) << 8) | b[1] as u16;
            if t >> 14 != 0 || b[4] != 0x21 || b[5] != 0x12 || b[6] != 0xa4 || b[7] != 0x42 {
                return Err(StunError);
            }
            let cookie: &[u8; 4] = (&b[4..8]).try_into().map_err(|_| StunError)?;
            let transaction_id: &[u8; 12] = (&b[8..20]).try_into().map_err(|_| StunError)?;
            Ok(MessageHeader { bits: 0, msg_type: t & 0x3fff, msg_length: ((b[2] as u16) << 8) | b[3] as u16, cookie, transaction_id })
        }
    }

    #[derive(Clone, Copy, PartialEq, Eq, Debug, PartialOrd, Ord, Hash)]
    pub struct AttributeType(pub u16);
    impl AttributeType {
        pub fn as_u16(&self) -> u16 {
            self.0
        }
    }
    pub trait StunAttributeType {
        fn get_type() -> AttributeType
        where
            Self: Sized;
        fn attribute_type(&self) -> AttributeType;
    }

    #[derive(Debug, Clone, Copy, PartialEq, Eq)]
    pub enum AlgorithmId {
        Reserved,
        MD5,
        SHA256,
        Unassigned(u16),
    }
    #[derive(Debug, Clone, Copy, PartialEq, Eq)]
    pub struct Algorithm {
        pub id: AlgorithmId,
    }
    impl Algorithm {
        pub fn algorithm(&self) -> AlgorithmId {
            self.id
        }
    }
    impl From<AlgorithmId> for Algorithm {
        fn from(id: AlgorithmId) -> Self {
            Algorithm { id }
        }
    }
    impl AsRef<Algorithm> for Algorithm {
        fn as_ref(&self) -> &Algorithm {
            self
        }
    }

    #[derive(Debug, Clone, Copy, PartialEq, Eq)]
    pub struct ErrorCode {
        pub code: u16,
    }
    impl ErrorCode {
        pub fn error_code(&self) -> u16 {
            self.code
        }
    }

    const TOK: [&str; 4] = ["t0", "t1", "t2", "t3"];
    fn tok_str(t: u8) -> &'static str {
        TOK[(t & 3) as usize]
    }
    fn str_tok(s: &str) -> u8 {
        let b = s.as_bytes();
        if b.len() == 2 && b[0] == b't' {
            b[1].wrapping_sub(b'0') & 3
        } else {
            0
        }
    }

    impl HMACKey {
        /// long-term key: depends on realm and password algorithm (user and password are fixed per client)
        pub fn new_long_term<A, B, C, T>(_username: A, realm: B, _password: C, algorithm: T) -> Result<Self, StunError>
        where
            A: AsRef<str>,
            B: AsRef<str>,
            C: AsRef<str>,
            T: AsRef<Algorithm>,
        {
            if unsafe { ENV2.key_derivation_fails } {
                return Err(StunError);
            }
            let a = match algorithm.as_ref().algorithm() {
                AlgorithmId::MD5 => 1,
                AlgorithmId::SHA256 => 2,
                _ => return Err(StunError),
            };
            Ok(HMACKey { id: 16 + str_tok(realm.as_ref()) * 4 + a })
        }
    }

    /// attribute-level environment choices, set by the harness
    pub struct Env2 {
        pub input_text_ok: bool,
        pub key_derivation_fails: bool,
        pub user_hash_fails: bool,
    }
    pub static mut ENV2: Env2 = Env2 { input_text_ok: true, key_derivation_fails: false, user_hash_fails: false };

    pub fn get_input_text<A>(_buffer: &[u8]) -> Option<Vec<u8>>
    where
        A: StunAttributeType,
    {
        if unsafe { ENV2.input_text_ok } {
            Some(Vec::new())
        } else {
            None
        }
    }

    pub mod attrs_model {
        use super::*;

        macro_rules! typed {
            ($t:ty, $code:expr, $variant:ident) => {
                impl StunAttributeType for $t {
                    fn get_type() -> AttributeType {
                        AttributeType($code)
                    }
                    fn attribute_type(&self) -> AttributeType {
                        AttributeType($code)
                    }
                }
                impl From<$t> for StunAttribute {
                    fn from(v: $t) -> Self {
                        StunAttribute::$variant(v)
                    }
                }
            };
        }

        #[derive(Debug, Clone, Copy, PartialEq, Eq)]
        pub struct UserName(pub u8);
        impl UserName {
            pub fn new<S: AsRef<str>>(_s: S) -> Result<Self, StunError> {
                Ok(UserName(1))
            }
        }
        impl AsRef<str> for UserName {
            fn as_ref(&self) -> &str {
                tok_str(self.0)
            }
        }
        #[derive(Debug, Clone, Copy, PartialEq, Eq)]
        pub struct Realm(pub u8);
        impl AsRef<str> for Realm {
            fn as_ref(&self) -> &str {
                tok_str(self.0)
            }
        }
        #[derive(Debug, Clone, Copy, PartialEq, Eq)]
        pub struct Nonce {
            pub tok: u8,
            pub cookie: bool,
            pub flags_ok: bool,
            pub anonymity: bool,
            pub pwd_algs: bool,
        }
        pub mod nonce_cookie {
            #[derive(Debug, Clone, Copy, PartialEq, Eq)]
            pub enum StunSecurityFeatures {
                PasswordAlgorithms,
                UserNameAnonymity,
            }
            #[derive(Debug, Clone, Copy)]
            pub struct Flags {
                pub pa: bool,
                pub ua: bool,
            }
            impl Flags {
                pub fn contains(&self, f: StunSecurityFeatures) -> bool {
                    match f {
                        StunSecurityFeatures::PasswordAlgorithms => self.pa,
                        StunSecurityFeatures::UserNameAnonymity => self.ua,
                    }
                }
            }
        }
        impl Nonce {
            pub fn is_nonce_cookie(&self) -> bool {
                self.cookie
            }
            pub fn security_features(&self) -> Result<nonce_cookie::Flags, StunError> {
                if self.cookie && self.flags_ok {
                    Ok(nonce_cookie::Flags { pa: self.pwd_algs, ua: self.anonymity })
                } else {
                    Err(StunError)
                }
            }
        }
        #[derive(Debug, Clone, Copy, PartialEq, Eq)]
        pub struct UserHash(pub u8);
        impl UserHash {
            pub fn new<A: AsRef<str>, B: AsRef<str>>(_name: A, realm: B) -> Result<Self, StunError> {
                if unsafe { ENV2.user_hash_fails } {
                    Err(StunError)
                } else {
                    Ok(UserHash(str_tok(realm.as_ref())))
                }
            }
        }
        #[derive(Debug, Clone, Copy, PartialEq, Eq)]
        pub struct PasswordAlgorithm(pub Algorithm);
        impl PasswordAlgorithm {
            pub fn algorithm(&self) -> AlgorithmId {
                self.0.id
            }
        }
        impl AsRef<Algorithm> for PasswordAlgorithm {
            fn as_ref(&self) -> &Algorithm {
                &self.0
            }
        }
        /// a list of up to two algorithms plus an identity token (so that "same content" is observable)
        #[derive(Debug, Clone, Copy, PartialEq, Eq)]
        pub struct PasswordAlgorithms {
            pub tok: u8,
            pub n: u8,
            pub list: [PasswordAlgorithm; 2],
        }
        impl PasswordAlgorithms {
            pub fn iter(&self) -> impl Iterator<Item = &PasswordAlgorithm> {
                self.list[..(self.n.min(2)) as usize].iter()
            }
        }
        #[derive(Debug, Clone, Copy, PartialEq, Eq)]
        pub enum MessageIntegrity {
            Encodable(HMACKey),
            /// id of the key under which the received MAC verifies (0 = none)
            Decodable(u8),
        }
        impl MessageIntegrity {
            pub fn new(key: HMACKey) -> Self {
                MessageIntegrity::Encodable(key)
            }
            pub fn validate(&self, _input: &[u8], key: &HMACKey) -> bool {
                match self {
                    MessageIntegrity::Decodable(k) => *k == key.id && *k != 0,
                    _ => false,
                }
            }
        }
        #[derive(Debug, Clone, Copy, PartialEq, Eq)]
        pub enum MessageIntegritySha256 {
            Encodable(HMACKey),
            Decodable(u8),
        }
        impl MessageIntegritySha256 {
            pub fn new(key: HMACKey) -> Self {
                MessageIntegritySha256::Encodable(key)
            }
            pub fn validate(&self, _input: &[u8], key: &HMACKey) -> bool {
                match self {
                    MessageIntegritySha256::Decodable(k) => *k == key.id && *k != 0,
                    _ => false,
                }
            }
        }
        #[derive(Debug, Clone, Copy, PartialEq, Eq)]
        pub enum Fingerprint {
            Encodable,
            Decodable(bool),
        }
        impl Default for Fingerprint {
            fn default() -> Self {
                Fingerprint::Encodable
            }
        }
        impl Fingerprint {
            pub fn validate(&self, _input: &[u8]) -> bool {
                matches!(self, Fingerprint::Decodable(true))
            }
        }
        #[derive(Debug, Clone, Copy, PartialEq, Eq)]
        pub struct ErrorCodeAttr(pub ErrorCode);
        impl ErrorCodeAttr {
            pub fn error_code(&self) -> &ErrorCode {
                &self.0
            }
        }
        /// ordinary attributes: a type code (outside the modelled kinds) and a value token
        #[derive(Debug, Clone, Copy, PartialEq, Eq)]
        pub struct Other {
            pub code: u16,
            pub val: u8,
        }

        #[derive(Debug, Clone, Copy, PartialEq, Eq)]
        pub enum StunAttribute {
            UserName(UserName),
            Realm(Realm),
            Nonce(Nonce),
            UserHash(UserHash),
            PasswordAlgorithm(PasswordAlgorithm),
            PasswordAlgorithms(PasswordAlgorithms),
            MessageIntegrity(MessageIntegrity),
            MessageIntegritySha256(MessageIntegritySha256),
            Fingerprint(Fingerprint),
            ErrorCode(ErrorCodeAttr),
            Other(Other),
        }
        typed!(UserName, 0x0006, UserName);
        typed!(Realm, 0x0014, Realm);
        typed!(Nonce, 0x0015, Nonce);
        typed!(UserHash, 0x001e, UserHash);
        typed!(PasswordAlgorithm, 0x001d, PasswordAlgorithm);
        typed!(PasswordAlgorithms, 0x8002, PasswordAlgorithms);
        typed!(MessageIntegrity, 0x0008, MessageIntegrity);
        typed!(MessageIntegritySha256, 0x001c, MessageIntegritySha256);
        typed!(Fingerprint, 0x8028, Fingerprint);
        typed!(ErrorCodeAttr, 0x0009, ErrorCode);
        impl From<Other> for StunAttribute {
            fn from(v: Other) -> Self {
                StunAttribute::Other(v)
            }
        }
        impl StunAttribute {
            pub fn attribute_type(&self) -> AttributeType {
                match self {
                    StunAttribute::UserName(a) => a.attribute_type(),
                    StunAttribute::Realm(a) => a.attribute_type(),
                    StunAttribute::Nonce(a) => a.attribute_type(),
                    StunAttribute::UserHash(a) => a.attribute_type(),
                    StunAttribute::PasswordAlgorithm(a) => a.attribute_type(),
                    StunAttribute::PasswordAlgorithms(a) => a.attribute_type(),
                    StunAttribute::MessageIntegrity(a) => a.attribute_type(),
                    StunAttribute::MessageIntegritySha256(a) => a.attribute_type(),
                    StunAttribute::Fingerprint(a) => a.attribute_type(),
                    StunAttribute::ErrorCode(a) => a.attribute_type(),
                    StunAttribute::Other(o) => AttributeType(o.code),
                }
            }
            pub fn is_message_integrity(&self) -> bool {
                matches!(self, StunAttribute::MessageIntegrity(_))
            }
            pub fn is_message_integrity_sha256(&self) -> bool {
                matches!(self, StunAttribute::MessageIntegritySha256(_))
            }
            pub fn is_fingerprint(&self) -> bool {
                matches!(self, StunAttribute::Fingerprint(_))
            }
            pub fn as_fingerprint(&self) -> Result<&Fingerprint, StunError> {
                match self {
                    StunAttribute::Fingerprint(f) => Ok(f),
                    _ => Err(StunError),
                }
            }
        }
    }
    pub use attrs_model::StunAttribute;

    impl StunMessage {
        pub fn attributes(&self) -> &[StunAttribute] {
            &self.attrs
        }
        pub fn method(&self) -> MessageMethod {
            self.method
        }
        pub fn get<A>(&self) -> Option<&StunAttribute>
        where
            A: StunAttributeType,
        {
            self.attrs.iter().find(|&a| a.attribute_type() == A::get_type())
        }
    }

    #[derive(Debug)]
    pub struct StunMessageBuilder {
        method: MessageMethod,
        class: MessageClass,
        tid: Option<TransactionId>,
        attrs: Vec<StunAttribute>,
    }
    impl StunMessageBuilder {
        pub fn new(method: MessageMethod, class: MessageClass) -> Self {
            StunMessageBuilder { method, class, tid: None, attrs: Vec::new() }
        }
        pub fn with_transaction_id(mut self, t: TransactionId) -> Self {
            self.tid = Some(t);
            self
        }
        pub fn with_attribute<T: Into<StunAttribute>>(mut self, a: T) -> Self {
            self.attrs.push(a.into());
            self
        }
        pub fn build(self) -> StunMessage {
            StunMessage { class: self.class, tid: self.tid.unwrap_or_default(), method: self.method, attrs: self.attrs }
        }
    }
}
#[cfg(feature = "attrs")]
pub use attr_level::*;
