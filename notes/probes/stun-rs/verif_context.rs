use super::*;

fn nofmt(_a: std::fmt::Arguments<'_>) -> String { String::new() }

// kinds: 0 ordinary, 1 MI, 2 SHA256, 3 FP
#[kani::proof]
#[kani::unwind(9)]
fn probe_ignore_rule_8() {
    let n: usize = kani::any();
    kani::assume(n <= 8);
    let kinds: [u8; 8] = kani::any();
    let mut f = AttributeFilter::default();
    let (mut seen_mi, mut seen_sha, mut seen_fp) = (false, false, false);
    let mut i = 0;
    while i < n {
        let k = kinds[i] & 3;
        let t = match k { 0 => AttributeType::from(0x8022), 1 => MessageIntegrity::get_type(), 2 => MessageIntegritySha256::get_type(), _ => Fingerprint::get_type() };
        let ignored = ignore_attribute(&mut f, t);
        let admitted = match k {
            0 => !(seen_mi || seen_sha || seen_fp),
            1 => !(seen_mi || seen_sha || seen_fp),
            2 => !(seen_sha || seen_fp),
            _ => !seen_fp,
        };
        match k { 1 => seen_mi = true, 2 => seen_sha = true, 3 => seen_fp = true, _ => {} }
        assert!(ignored == !admitted);
        i += 1;
    }
}

#[kani::proof]
#[kani::unwind(6)]
#[kani::stub(alloc::fmt::format, nofmt)]
#[kani::stub(<crate::types::TransactionId as std::default::Default>::default, stub_tid_default)]
fn probe_encode_two_attrs() {
    use crate::attributes::stun::*;
    let m: u16 = kani::any(); kani::assume(m <= 0xFFF);
    let tid: [u8; 12] = kani::any();
    let ip: [u8; 4] = kani::any();
    let port: u16 = kani::any();
    let code: u16 = kani::any(); kani::assume(code >= 300 && code < 700);
    let ec = match crate::ErrorCode::new(code, "ab") { Ok(e) => e, Err(_) => { assert!(false); return; } };
    let msg = StunMessageBuilder::new(crate::MessageMethod(m), crate::MessageClass::ErrorResponse)
        .with_transaction_id(TransactionId::from(tid))
        .with_attribute(XorMappedAddress::from(std::net::SocketAddr::new(std::net::IpAddr::from(ip), port)))
        .with_attribute(ErrorCode::new(ec))
        .build();
    let blen: usize = kani::any(); kani::assume(blen <= 48);
    let mut buf = [0xAAu8; 48];
    let enc = MessageEncoderBuilder::default().build();
    let r = enc.encode(&mut buf[..blen], &msg);
    match &r {
        Ok(sz) => { assert!(*sz == 44); assert!(blen >= 44); assert!(buf[44] == 0xAA); assert!(buf[2] == 0 && buf[3] == 24);
            assert!(buf[24] == 0 && buf[25] == 1);
            assert!(buf[26] == (port >> 8) as u8 ^ 0x21 && buf[27] == (port as u8) ^ 0x12);
            assert!(buf[28] == ip[0] ^ 0x21);
            assert!(buf[38] == (code / 100) as u8 && buf[39] == (code % 100) as u8);
            assert!(buf[42] == 0 && buf[43] == 0);
        }
        Err(_) => { assert!(blen < 44); }
    }
    std::mem::forget(r);
    std::mem::forget(msg);
}

fn stub_tid_default() -> crate::types::TransactionId { crate::types::TransactionId::from([0u8;12]) }
