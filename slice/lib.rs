//! agent-slice: the REAL stun-agent sources client.rs / timeout.rs / rtt.rs / events.rs (copied
//! from the working tree into ../real/, unmodified except the mechanical HashMap -> VecMap import
//! swap in client.rs) compiled against the environment model of stun-rs and light models of the
//! agent modules the client only calls through (mechanisms, fingerprint, message).
#![allow(dead_code, unused_imports, static_mut_refs)]
use std::ops::Deref;
use std::sync::Arc;

#[path = "../real/client.rs"]
mod client;
#[path = "../real/events.rs"]
mod events;
#[path = "../real/rtt.rs"]
mod rtt;
#[path = "../real/timeout.rs"]
mod timeout;
mod verif_map;
mod support_time;

pub use client::*;
pub use events::*;
pub use message::StunAttributes;

// ---- definitions mirrored from stun-agent/src/lib.rs --------------------------------------
#[derive(Debug, PartialEq, Eq)]
pub enum StunAgentError {
    Discarded,
    FingerPrintValidationFailed,
    Ignored,
    MaxOutstandingRequestsReached,
    StunCheckFailed,
    InternalError(String),
}
#[derive(Debug, Clone, Copy, PartialEq, Eq)]
pub enum Integrity {
    MessageIntegrity,
    MessageIntegritySha256,
}
#[derive(Debug, Clone, Copy, PartialEq, Eq)]
pub enum CredentialMechanism {
    ShortTerm(Option<Integrity>),
    LongTerm,
}

/// packets are tokens: two packets are the same bytes iff they carry the same token
#[derive(Debug, Clone, Copy, PartialEq, Eq)]
pub struct StunPacket {
    pub token: u32,
    pub size: usize,
}
pub static mut NEXT_PKT: u32 = 0;
impl StunPacket {
    pub(crate) fn new(buffer: Vec<u8>, size: usize) -> Self {
        std::mem::forget(buffer);
        unsafe {
            NEXT_PKT += 1;
            StunPacket { token: NEXT_PKT, size }
        }
    }
}

// ---- what the light models answer; set by the harness ---------------------------------------
pub struct AgentEnv {
    /// fingerprint::validate_fingerprint: Err(StunCheckFailed) | Ok(valid)
    pub fp: Result<bool, ()>,
    /// mechanism.recv_message verdict
    pub mech: Result<(), integrity::IntegrityError>,
    /// mechanism.signal_protection_violated_on_timeout verdict
    pub violated_marker: bool,
    /// long-term prepare_request may fail with an internal error
    pub prepare_fails: bool,
    /// calls observed
    pub mech_recv_calls: u8,
    pub fp_calls: u8,
    /// calls of the (marker-consuming) signal_protection_violated_on_timeout
    pub marker_calls: u8,
}
pub static mut AENV: AgentEnv = AgentEnv { fp: Ok(true), mech: Ok(()), violated_marker: false, prepare_fails: false, mech_recv_calls: 0, fp_calls: 0, marker_calls: 0 };

mod message {
    use stun_rs::*;
    #[derive(Debug, Default, Clone)]
    pub struct StunAttributes;
    pub fn create_stun_message(_m: MessageMethod, class: MessageClass, tid: Option<TransactionId>, _a: StunAttributes) -> StunMessage {
        StunMessage::light(class, tid.unwrap_or_default())
    }
}
mod fingerprint {
    use crate::{message::StunAttributes, StunAgentError, AENV};
    pub fn validate_fingerprint(_b: &[u8], _m: &stun_rs::StunMessage) -> Result<bool, StunAgentError> {
        unsafe {
            AENV.fp_calls += 1;
            match AENV.fp {
                Ok(v) => Ok(v),
                Err(()) => Err(StunAgentError::StunCheckFailed),
            }
        }
    }
    pub fn add_fingerprint_attribute(_a: &mut StunAttributes) {}
}
pub mod integrity {
    #[derive(Debug, Clone, Copy, PartialEq, Eq)]
    pub enum IntegrityError {
        Discarded,
        NotRetryable,
        ProtectionViolated,
        Retry,
    }
}
mod st_cred_mech {
    use crate::{integrity::*, message::StunAttributes, Integrity, AENV};
    use stun_rs::*;
    #[derive(Debug)]
    pub struct ShortTermCredentialClient;
    impl ShortTermCredentialClient {
        pub fn new(_u: stun_rs::attributes::stun::UserName, _k: HMACKey, _i: Option<Integrity>, _r: bool) -> Self {
            ShortTermCredentialClient
        }
        pub fn add_attributes(&self, _a: &mut StunAttributes) {}
        pub fn recv_message(&mut self, _b: &[u8], _m: &StunMessage) -> Result<(), IntegrityError> {
            unsafe {
                AENV.mech_recv_calls += 1;
                AENV.mech
            }
        }
        pub fn signal_protection_violated_on_timeout(&mut self, _t: &TransactionId) -> bool {
            // like the real TransportIntegrity: the query consumes the marker of that transaction
            unsafe {
                let v = AENV.violated_marker;
                AENV.violated_marker = false;
                AENV.marker_calls += 1;
                v
            }
        }
    }
}
mod lt_cred_mech {
    use crate::{integrity::*, message::StunAttributes, StunAgentError, AENV};
    use stun_rs::*;
    #[derive(Debug)]
    pub struct LongTermCredentialClient;
    impl LongTermCredentialClient {
        pub fn new<P: Into<String>>(_u: stun_rs::attributes::stun::UserName, _p: P, _r: bool) -> Self {
            LongTermCredentialClient
        }
        pub fn prepare_request(&mut self, _a: &mut StunAttributes) -> Result<(), StunAgentError> {
            if unsafe { AENV.prepare_fails } {
                Err(StunAgentError::InternalError(String::new()))
            } else {
                Ok(())
            }
        }
        pub fn prepare_indication(&mut self, _a: &mut StunAttributes) -> Result<(), StunAgentError> {
            Err(StunAgentError::Ignored)
        }
        pub fn recv_message(&mut self, _b: &[u8], _m: &StunMessage) -> Result<(), IntegrityError> {
            unsafe {
                AENV.mech_recv_calls += 1;
                AENV.mech
            }
        }
        pub fn signal_protection_violated_on_timeout(&mut self, _t: &TransactionId) -> bool {
            // like the real TransportIntegrity: the query consumes the marker of that transaction
            unsafe {
                let v = AENV.violated_marker;
                AENV.violated_marker = false;
                AENV.marker_calls += 1;
                v
            }
        }
    }
}
