"""Property table: which solver queries decide which property (DESIGN §3)."""
from .driver import Harness as H

NOFMT = "alloc::fmt::format -> nofmt (error texts outside the claim)"

PROPS = {}
META = {}


def prop(pid, harnesses, outside="", assumptions=()):
    PROPS[pid] = harnesses
    META[pid] = {"outside": outside, "assumptions": list(assumptions)}


CTX = "context::verif_context::"

prop("C09", [
    H("stunrs", CTX + "c09_type_codes", timeout=120, mem_gb=2, covers=0,
      bounds="constants", funcs=["MessageIntegrity::get_type", "MessageIntegritySha256::get_type", "Fingerprint::get_type"],
      sample="type codes 0x0008 / 0x001C / 0x8028"),
    H("stunrs", CTX + "c09_rule_seq8", timeout=300, mem_gb=4, covers=2,
      bounds="all sequences of <= 8 attribute type codes, each an arbitrary u16 (65536^8 sequences incl. all 87,380 kind sequences)",
      funcs=["context::ignore_attribute", "context::AttributeFilter"],
      sample="types=[0x0006,0x0008,0x001C,0x8028,0x8028,0x8022,0x0008,0x001C] -> admitted 1,1,1,1,0,0,0,0"),
    H("stunrs", CTX + "c09_rule_seq12", tier="thorough", timeout=900, mem_gb=6, covers=2,
      bounds="all sequences of <= 12 attribute type codes, each an arbitrary u16",
      funcs=["context::ignore_attribute", "context::AttributeFilter"]),
], outside="sequences longer than 12 attributes")

# ---------------------------------------------------------------------------------------------
# MANIFEST texts
# ---------------------------------------------------------------------------------------------
DESCR = {
    "C09": {
        "level": "Bounded model checking of the real ordering filter (context::ignore_attribute) against the rule as stated in the property, for every sequence of <= 8 (thorough: 12) arbitrary 16-bit attribute type codes; within that bound the SAT verdict covers all sequences, beyond it nothing is claimed.",
        "note": "Trusted: Kani/CBMC/CaDiCaL, the reference rule written in the harness from RFC 8489 with literal IANA type numbers.",
    },
}

_PENDING = "check not built yet in this round; see DESIGN.md §3 for the plan"
NOT_APPLICABLE = {p: _PENDING for p in ["C%02d" % i for i in range(1, 20)]}
