// Message level: C01 (round trip), C02 (header/padding layout, ignorable bits), C14 (buffer
// discipline) through the real MessageEncoder::encode / MessageDecoder::decode.
// The decoder registry (lazy_static HashMap) is replaced by `registry_from_source`, an if-chain
// generated at check time from the register::<X>() lines of the working tree.
#![allow(unused_imports, dead_code)]
use crate::attributes::stun::*;
use crate::support_common::*;
use crate::verif_registry::registry_from_source;
use crate::{
    MessageClass, MessageDecoderBuilder, MessageEncoderBuilder, MessageMethod, MessageType, StunAttribute,
    StunMessage, StunMessageBuilder, TransactionId,
};
use std::net::{IpAddr, Ipv4Addr, SocketAddr};

pub const MCAP: usize = 48;

fn any_class() -> (MessageClass, u16) {
    let c: u8 = kani::any();
    kani::assume(c < 4);
    let cls = match c {
        0 => MessageClass::Request,
        1 => MessageClass::Indication,
        2 => MessageClass::SuccessResponse,
        _ => MessageClass::ErrorResponse,
    };
    (cls, c as u16)
}

/// RFC 8489 §5, figure 3: M11..M7 C1 M6..M4 C0 M3..M0 in the low 14 bits, two top bits zero.
fn type_bits(m: u16, c: u16) -> u16 {
    ((m & 0x0f80) << 2) | ((c & 2) << 7) | ((m & 0x0070) << 1) | ((c & 1) << 4) | (m & 0x000f)
}

// ---------------------------------------------------------------------------------------------
// C02: all 16384 (method, class) pairs, both directions
// ---------------------------------------------------------------------------------------------
#[kani::proof]
#[kani::unwind(4)]
#[kani::stub(alloc::fmt::format, nofmt)]
fn c02_message_type_bits() {
    let m: u16 = kani::any();
    kani::assume(m <= 0x0fff);
    let (cls, c) = any_class();
    let mt = MessageType::new(MessageMethod(m), cls);
    let v = mt.as_u16();
    assert!(v == type_bits(m, c), "C02: 14-bit interleaving of method and class");
    assert!(v & 0xc000 == 0);
    let top: u16 = kani::any();
    let back = MessageType::from(v | (top << 14));
    assert!(back.method().as_u16() == m && back.class() == cls, "C02: type decodes back; top bits ignored");
}

// ---------------------------------------------------------------------------------------------
// one-attribute messages: the attribute is built by `$mk`, `$vlen` is its value length, `$same`
// compares the decoded attribute with the original
// ---------------------------------------------------------------------------------------------
struct Built {
    msg: StunMessage,
    m: u16,
    c: u16,
    tid: [u8; 12],
}

fn build_one(attr: StunAttribute) -> Built {
    let m: u16 = kani::any();
    kani::assume(m <= 0x0fff);
    let (cls, c) = any_class();
    let tid: [u8; 12] = kani::any();
    let msg = StunMessageBuilder::new(MessageMethod(m), cls)
        .with_transaction_id(TransactionId::from(tid))
        .with_attribute(attr)
        .build();
    Built { msg, m, c, tid }
}

/// Round-trip queries use a CONCRETE (method, class) per instance: with symbolic type bits the decoder's
/// header check keeps an error path alive whose merge makes the length field symbolic for the symbolic
/// executor; the attribute loop is then unwound to the bound with every decoder in each iteration
/// (2.3 M steps for a 20-byte message against 20 k with a concrete type).  Type bits for all 16384
/// pairs: c02_message_type_bits; symbolic method/class on the encoder side: c14_msg_*.
fn build_one_typed(attr: StunAttribute, m: u16, c: u8) -> Built {
    let cls = match c & 3 {
        0 => MessageClass::Request,
        1 => MessageClass::Indication,
        2 => MessageClass::SuccessResponse,
        _ => MessageClass::ErrorResponse,
    };
    let tid: [u8; 12] = kani::any();
    let msg = StunMessageBuilder::new(MessageMethod(m & 0x0fff), cls)
        .with_transaction_id(TransactionId::from(tid))
        .with_attribute(attr)
        .build();
    Built { msg, m: m & 0x0fff, c: (c & 3) as u16, tid }
}

fn check_header(buf: &[u8; MCAP], b: &Built, attr_bytes: usize) {
    let t = type_bits(b.m, b.c);
    assert!(buf[0] == (t >> 8) as u8 && buf[1] == t as u8, "C02: message type");
    assert!(buf[2] == (attr_bytes >> 8) as u8 && buf[3] == attr_bytes as u8, "C02: length excludes the 20-byte header");
    assert!(buf[4] == 0x21 && buf[5] == 0x12 && buf[6] == 0xa4 && buf[7] == 0x42, "C02: magic cookie");
    let j: usize = kani::any();
    kani::assume(j < 12);
    assert!(buf[8 + j] == b.tid[j], "C02: transaction id");
}

/// C14 + C02: encode into `buf[..blen]` for every blen <= MCAP
fn encode_discipline(b: &Built, code: u16, vlen: usize) {
    let pad = (4 - (vlen & 3)) & 3;
    let needed = 20 + 4 + vlen + pad;
    let fill: u8 = kani::any();
    let mut buf = [fill; MCAP];
    let blen: usize = kani::any();
    kani::assume(blen <= MCAP);
    let enc = MessageEncoderBuilder::default().build();
    let r = enc.encode(&mut buf[..blen], &b.msg);
    match &r {
        Ok(n) => {
            assert!(blen >= needed, "C14: a shorter buffer is an error");
            assert!(*n == needed, "C14/C01: returned size = 20 + attributes, multiple of 4");
            check_header(&buf, b, needed - 20);
            assert!(buf[20] == (code >> 8) as u8 && buf[21] == code as u8, "C02: attribute type code");
            assert!(buf[22] == (vlen >> 8) as u8 && buf[23] == vlen as u8, "C02: attribute length without padding");
            if pad > 0 {
                let j: usize = kani::any();
                kani::assume(j < pad);
                assert!(buf[24 + vlen + j] == 0, "C02: padding is zero");
            }
            let j: usize = kani::any();
            kani::assume(j < MCAP);
            if j >= needed {
                assert!(buf[j] == fill, "C14: bytes beyond the returned size are untouched");
            }
        }
        Err(_) => assert!(blen < needed, "C14: a buffer that is long enough is accepted"),
    }
    kani::cover!(r.is_ok() && blen == needed);
    kani::cover!(r.is_err() && blen + 1 == needed);
    std::mem::forget(r);
}

/// C01 + C02: encode into a large buffer, then decode exactly the produced bytes; then decode
/// again with the padding bytes replaced by arbitrary values
static mut EXPECTED_CODE: u16 = 0;
fn expected_code() -> u16 {
    unsafe { EXPECTED_CODE }
}
fn round_trip<F: Fn(&StunAttribute)>(b: &Built, vlen: usize, same: F) {
    let pad = (4 - (vlen & 3)) & 3;
    let needed = 20 + 4 + vlen + pad;
    let mut buf = [0xa5u8; MCAP];
    let enc = MessageEncoderBuilder::default().build();
    let n = match enc.encode(&mut buf, &b.msg) {
        Ok(n) => n,
        Err(e) => {
            std::mem::forget(e);
            assert!(false, "C01: encodes into a large enough buffer");
            return;
        }
    };
    assert!(n == needed);
    if pad > 0 {
        let j: usize = kani::any();
        kani::assume(j < pad);
        buf[24 + vlen + j] = kani::any(); // receivers must ignore padding (RFC 8489 §14)
    }
    // The framing bytes the encoder wrote are asserted to be the expected constants and then re-written
    // as those constants (the buffer is unchanged, but the symbolic executor now sees literals: the
    // encoder writes them at offsets it derives from a Result-merged accumulator, which makes every
    // byte of the buffer symbolic for constant folding and the decode that follows intractable).
    let t = type_bits(b.m, b.c);
    assert!(buf[0] == (t >> 8) as u8 && buf[1] == t as u8, "C02: message type");
    assert!(buf[2] == ((needed - 20) >> 8) as u8 && buf[3] == (needed - 20) as u8, "C02: length field");
    assert!(buf[4] == 0x21 && buf[5] == 0x12 && buf[6] == 0xa4 && buf[7] == 0x42, "C02: magic cookie");
    assert!(buf[22] == (vlen >> 8) as u8 && buf[23] == vlen as u8, "C02: attribute length");
    let code = ((buf[20] as u16) << 8) | buf[21] as u16;
    assert!(code == expected_code(), "C02: attribute type code");
    buf[0] = (t >> 8) as u8;
    buf[1] = t as u8;
    buf[2] = ((needed - 20) >> 8) as u8;
    buf[3] = (needed - 20) as u8;
    buf[4] = 0x21;
    buf[5] = 0x12;
    buf[6] = 0xa4;
    buf[7] = 0x42;
    buf[20] = (expected_code() >> 8) as u8;
    buf[21] = expected_code() as u8;
    buf[22] = (vlen >> 8) as u8;
    buf[23] = vlen as u8;
    let dec = MessageDecoderBuilder::default().build();
    match dec.decode(&buf[..needed]) {
        Ok((m2, used)) => {
            assert!(used == n && used == needed, "C01: decoder consumes what the encoder produced");
            assert!(m2.method().as_u16() == b.m && m2.class() == b.msg.class(), "C01: method/class");
            let j: usize = kani::any();
            kani::assume(j < 12);
            assert!(m2.transaction_id().as_bytes()[j] == b.tid[j], "C01: transaction id");
            assert!(m2.attributes().len() == 1, "C01: same attributes");
            same(&m2.attributes()[0]);
            std::mem::forget(m2);
        }
        Err(e) => {
            std::mem::forget(e);
            assert!(false, "C01: the encoder's output decodes");
        }
    }
}

// The decoder's registry is restricted, per query, to the one kind the message carries (the full
// registry makes the goto program contain all 38 decoders incl. PRECIS and the pest grammar: even
// the header-only decode then spends minutes before symbolic execution starts).  That the generated
// full registry maps the same code to the same decoder is asserted by `c01_registry_agrees`.
macro_rules! one_attr {
    ($disc:ident, $rt:ident, $reg:ident, $kind:ty, $code:expr, $vlen:expr, $mk:expr, $same:expr) => {
        fn $reg(t: crate::AttributeType) -> Option<&'static crate::registry::DecoderHandler> {
            fn h(ctx: crate::context::AttributeDecoderContext) -> Result<(StunAttribute, usize), crate::StunError> {
                let (v, s) = <$kind as crate::attributes::DecodeAttributeValue>::decode(ctx)?;
                Ok((v.into(), s))
            }
            static H: crate::registry::DecoderHandler = h;
            if t.as_u16() == $code {
                Some(&H)
            } else {
                None
            }
        }
        #[kani::proof]
        #[kani::unwind(6)]
        #[kani::stub(alloc::fmt::format, nofmt)]
        #[kani::stub(<crate::types::TransactionId as std::default::Default>::default, tid_any)]
        fn $disc() {
            let (attr, _orig) = $mk;
            let b = build_one(attr);
            encode_discipline(&b, $code, $vlen);
            std::mem::forget(b);
        }
        #[kani::proof]
        #[kani::unwind(6)]
        #[kani::stub(alloc::fmt::format, nofmt)]
        #[kani::stub(<crate::types::TransactionId as std::default::Default>::default, tid_any)]
        #[kani::stub(crate::registry::get_handler, $reg)]
        fn $rt() {
            let (attr, orig) = $mk;
            let b = build_one_typed(attr, $code as u16, $vlen as u8);
            unsafe { EXPECTED_CODE = $code; }
            round_trip(&b, $vlen, |a: &StunAttribute| ($same)(a, &orig));
            std::mem::forget(b);
        }
    };
}

fn registry_none(_t: crate::AttributeType) -> Option<&'static crate::registry::DecoderHandler> {
    None
}

#[kani::proof]
#[kani::unwind(4)]
fn c01_registry_agrees() {
    use crate::StunAttributeType;
    // the kinds used by the message-level queries are registered under the codes used there
    for code in [0x0018u16, 0x000a, 0x0013, 0x000c, 0x0020] {
        assert!(registry_from_source(crate::AttributeType::from(code)).is_some());
    }
    assert!(crate::attributes::turn::EvenPort::get_type().as_u16() == 0x0018);
    assert!(UnknownAttributes::get_type().as_u16() == 0x000a);
    assert!(crate::attributes::turn::Data::get_type().as_u16() == 0x0013);
    assert!(crate::attributes::turn::ChannelNumber::get_type().as_u16() == 0x000c);
    assert!(XorMappedAddress::get_type().as_u16() == 0x0020);
}

#[cfg(feature = "turn")]
one_attr!(c14_msg_even_port, c01_msg_even_port, reg_even_port, crate::attributes::turn::EvenPort, 0x0018, 1,
    { let r: bool = kani::any(); (StunAttribute::from(crate::attributes::turn::EvenPort::new(r)), r) },
    |a: &StunAttribute, r: &bool| match a { StunAttribute::EvenPort(x) => assert!(x.reserve() == *r), _ => assert!(false, "C01: same kind") });

one_attr!(c14_msg_unknown_attributes, c01_msg_unknown_attributes, reg_unknown_attributes, UnknownAttributes, 0x000a, 2,
    { let t: u16 = kani::any(); let mut u = UnknownAttributes::default(); u.add(t); (StunAttribute::from(u), t) },
    |a: &StunAttribute, t: &u16| match a { StunAttribute::UnknownAttributes(x) => assert!(x.attributes().len() == 1 && x.attributes()[0] == *t), _ => assert!(false, "C01: same kind") });

#[cfg(feature = "turn")]
one_attr!(c14_msg_data3, c01_msg_data3, reg_data3, crate::attributes::turn::Data, 0x0013, 3,
    { let d: [u8; 3] = kani::any(); (StunAttribute::from(crate::attributes::turn::Data::new(&d[..])), d) },
    |a: &StunAttribute, d: &[u8; 3]| match a { StunAttribute::Data(x) => assert!(x.as_bytes().len() == 3 && x.as_bytes()[0] == d[0] && x.as_bytes()[1] == d[1] && x.as_bytes()[2] == d[2]), _ => assert!(false, "C01: same kind") });

#[cfg(feature = "turn")]
one_attr!(c14_msg_channel_number, c01_msg_channel_number, reg_channel_number, crate::attributes::turn::ChannelNumber, 0x000c, 4,
    { let n: u16 = kani::any(); (StunAttribute::from(crate::attributes::turn::ChannelNumber::new(n)), n) },
    |a: &StunAttribute, n: &u16| match a { StunAttribute::ChannelNumber(x) => assert!(x.number() == *n), _ => assert!(false, "C01: same kind") });

one_attr!(c14_msg_xor_mapped_v4, c01_msg_xor_mapped_v4, reg_xor_mapped_v4, XorMappedAddress, 0x0020, 8,
    { let ip: [u8; 4] = kani::any(); let port: u16 = kani::any(); let sa = SocketAddr::new(IpAddr::V4(Ipv4Addr::from(ip)), port); (StunAttribute::from(XorMappedAddress::from(sa)), sa) },
    |a: &StunAttribute, sa: &SocketAddr| match a { StunAttribute::XorMappedAddress(x) => assert!(x.socket_address() == sa), _ => assert!(false, "C01: same kind") });

#[cfg(feature = "turn")]
one_attr!(c14_msg_data5, c01_msg_data5, reg_data5, crate::attributes::turn::Data, 0x0013, 5,
    { let d: [u8; 5] = kani::any(); (StunAttribute::from(crate::attributes::turn::Data::new(&d[..])), d) },
    |a: &StunAttribute, d: &[u8; 5]| match a { StunAttribute::Data(x) => { let j: usize = kani::any(); kani::assume(j < 5); assert!(x.as_bytes().len() == 5 && x.as_bytes()[j] == d[j]) }, _ => assert!(false, "C01: same kind") });

// empty message: header only
#[kani::proof]
#[kani::unwind(6)]
#[kani::stub(alloc::fmt::format, nofmt)]
#[kani::stub(<crate::types::TransactionId as std::default::Default>::default, tid_any)]
#[kani::stub(crate::registry::get_handler, registry_none)]
fn c01_msg_empty() {
    let m: u16 = kani::any();
    kani::assume(m <= 0x0fff);
    let (cls, c) = any_class();
    let tid: [u8; 12] = kani::any();
    let msg = StunMessageBuilder::new(MessageMethod(m), cls).with_transaction_id(TransactionId::from(tid)).build();
    let b = Built { msg, m, c, tid };
    // full-size buffer: a symbolic buffer length makes CBMC lose the constant bytes the encoder
    // wrote, and the decoder then explores every registered attribute decoder (buffer discipline
    // for the header-only message is the c14_msg_empty query)
    let mut buf = [0xa5u8; MCAP];
    let r = MessageEncoderBuilder::default().build().encode(&mut buf, &b.msg);
    match &r {
        Ok(n) => {
            assert!(*n == 20);
            check_header(&buf, &b, 0);
            match MessageDecoderBuilder::default().build().decode(&buf[..20]) {
                Ok((m2, used)) => {
                    assert!(used == 20 && m2.method().as_u16() == m && m2.class() == cls && m2.attributes().is_empty());
                    std::mem::forget(m2);
                }
                Err(e) => {
                    std::mem::forget(e);
                    assert!(false);
                }
            }
        }
        Err(_) => assert!(false),
    }
    std::mem::forget(r);
    std::mem::forget(b);
}

#[kani::proof]
#[kani::unwind(6)]
#[kani::stub(alloc::fmt::format, nofmt)]
#[kani::stub(<crate::types::TransactionId as std::default::Default>::default, tid_any)]
fn c14_msg_empty() {
    let m: u16 = kani::any();
    kani::assume(m <= 0x0fff);
    let (cls, c) = any_class();
    let tid: [u8; 12] = kani::any();
    let msg = StunMessageBuilder::new(MessageMethod(m), cls).with_transaction_id(TransactionId::from(tid)).build();
    let b = Built { msg, m, c, tid };
    let fill: u8 = kani::any();
    let mut buf = [fill; MCAP];
    let blen: usize = kani::any();
    kani::assume(blen <= MCAP);
    let r = MessageEncoderBuilder::default().build().encode(&mut buf[..blen], &b.msg);
    match &r {
        Ok(n) => {
            assert!(*n == 20 && blen >= 20, "C14: Ok only when the buffer holds the header");
            check_header(&buf, &b, 0);
            let j: usize = kani::any();
            kani::assume(j < MCAP);
            if j >= 20 {
                assert!(buf[j] == fill, "C14: bytes beyond the returned size untouched");
            }
        }
        Err(_) => assert!(blen < 20),
    }
    kani::cover!(r.is_ok());
    kani::cover!(r.is_err());
    std::mem::forget(r);
    std::mem::forget(b);
}

// =============================================================================================
// C04 / C10: which bytes are fed to the MAC / CRC by the encoder and by the validating decoder.
// The primitives are replaced by recording stubs (cryptographic strength is outside the claim):
// the stub copies key and input into ghost buffers and returns the MAC/CRC chosen by the harness.
// =============================================================================================
const RCAP: usize = 96;
struct Recorded {
    calls: usize,
    key_len: usize,
    key0: u8,
    msg_len: usize,
    msg: [u8; RCAP],
}
static mut REC_MI: Recorded = Recorded { calls: 0, key_len: 0, key0: 0, msg_len: 0, msg: [0; RCAP] };
static mut REC_SHA: Recorded = Recorded { calls: 0, key_len: 0, key0: 0, msg_len: 0, msg: [0; RCAP] };
static mut REC_CRC: Recorded = Recorded { calls: 0, key_len: 0, key0: 0, msg_len: 0, msg: [0; RCAP] };
static mut MAC_MI: [u8; 20] = [0; 20];
static mut MAC_SHA: [u8; 32] = [0; 32];
static mut CRC_VAL: u32 = 0;

fn record(r: &mut Recorded, key: &[u8], message: &[u8]) {
    r.calls += 1;
    r.key_len = key.len();
    r.key0 = if key.is_empty() { 0 } else { key[0] };
    r.msg_len = message.len();
    if message.len() <= RCAP {
        r.msg[..message.len()].copy_from_slice(message);
    }
}
fn stub_hmac_sha1(key: &[u8], message: &[u8]) -> Vec<u8> {
    unsafe {
        record(&mut REC_MI, key, message);
        MAC_MI.to_vec()
    }
}
fn stub_hmac_sha256(key: &[u8], message: &[u8]) -> Vec<u8> {
    unsafe {
        record(&mut REC_SHA, key, message);
        MAC_SHA.to_vec()
    }
}
fn stub_crc32(_this: &crc::Crc<u32>, bytes: &[u8]) -> u32 {
    unsafe {
        record(&mut REC_CRC, &[], bytes);
        CRC_VAL
    }
}

fn key_ab() -> crate::HMACKey {
    // "ab" is printable ASCII: OpaqueString is the identity (precis_ascii)
    match crate::HMACKey::new_short_term("ab") {
        Ok(k) => k,
        Err(_) => {
            kani::assume(false);
            unreachable!()
        }
    }
}

/// expected MAC/CRC input for the attribute starting at byte `at` (header included) whose padded
/// end is `end`: final[..at] with the length field := end - 20
fn check_input(rec: &Recorded, fin: &[u8; RCAP], at: usize, end: usize) {
    assert!(rec.calls == 1, "C04/C10: the primitive is called exactly once per attribute");
    assert!(rec.msg_len == at, "C04/C10: MAC/CRC input = the message up to (excluding) the attribute");
    let l = end - 20;
    assert!(rec.msg[2] == (l >> 8) as u8 && rec.msg[3] == l as u8, "C04/C10: length field covers the attribute itself");
    let j: usize = kani::any();
    kani::assume(j < RCAP);
    if j < at && j != 2 && j != 3 {
        assert!(rec.msg[j] == fin[j], "C04/C10: every byte before the attribute (other than the length field) is part of the input");
    }
}

/// TAIL: bit 0 = MESSAGE-INTEGRITY, bit 1 = MESSAGE-INTEGRITY-SHA256, bit 2 = FINGERPRINT
fn c04_tail<const TAIL: u8>() {
    let key = key_ab();
    // concrete (method, class) per instance: see build_one_typed
    let m: u16 = TAIL as u16 + 1;
    let c: u16 = (TAIL & 3) as u16;
    let cls = match c {
        0 => MessageClass::Request,
        1 => MessageClass::Indication,
        2 => MessageClass::SuccessResponse,
        _ => MessageClass::ErrorResponse,
    };
    let tid: [u8; 12] = kani::any();
    let pr: u32 = kani::any();
    let mut b = StunMessageBuilder::new(MessageMethod(m), cls).with_transaction_id(TransactionId::from(tid)).with_attribute(crate::attributes::ice::Priority::new(pr));
    let mut pos = 20 + 8; // header + PRIORITY (4 + 4)
    let (mut at_mi, mut at_sha, mut at_fp) = (0usize, 0usize, 0usize);
    if TAIL & 1 != 0 {
        b = b.with_attribute(MessageIntegrity::new(key.clone()));
        at_mi = pos;
        pos += 24;
    }
    if TAIL & 2 != 0 {
        b = b.with_attribute(MessageIntegritySha256::new(key.clone()));
        at_sha = pos;
        pos += 36;
    }
    if TAIL & 4 != 0 {
        b = b.with_attribute(Fingerprint::default());
        at_fp = pos;
        pos += 8;
    }
    let msg = b.build();
    unsafe {
        MAC_MI = kani::any();
        MAC_SHA = kani::any();
        CRC_VAL = kani::any();
        REC_MI.calls = 0;
        REC_SHA.calls = 0;
        REC_CRC.calls = 0;
    }
    let mut buf = [0x5au8; RCAP];
    let n = match MessageEncoderBuilder::default().build().encode(&mut buf, &msg) {
        Ok(n) => n,
        Err(e) => {
            std::mem::forget(e);
            assert!(false, "C01: a message with an integrity/fingerprint tail encodes");
            return;
        }
    };
    assert!(n == pos);
    assert!(buf[2] == ((n - 20) >> 8) as u8 && buf[3] == (n - 20) as u8);
    unsafe {
        if TAIL & 1 != 0 {
            assert!(buf[at_mi] == 0x00 && buf[at_mi + 1] == 0x08 && buf[at_mi + 2] == 0 && buf[at_mi + 3] == 20, "C02: MESSAGE-INTEGRITY header");
            check_input(&REC_MI, &buf, at_mi, at_mi + 24);
            assert!(REC_MI.key_len == 2 && REC_MI.key0 == b'a', "C04: keyed with the credential's key bytes");
            let j: usize = kani::any();
            kani::assume(j < 20);
            assert!(buf[at_mi + 4 + j] == MAC_MI[j], "C04: the attribute carries the MAC");
        } else {
            assert!(REC_MI.calls == 0);
        }
        if TAIL & 2 != 0 {
            assert!(buf[at_sha] == 0x00 && buf[at_sha + 1] == 0x1c && buf[at_sha + 2] == 0 && buf[at_sha + 3] == 32, "C02: MESSAGE-INTEGRITY-SHA256 header");
            check_input(&REC_SHA, &buf, at_sha, at_sha + 36);
            assert!(REC_SHA.key_len == 2 && REC_SHA.key0 == b'a');
            let j: usize = kani::any();
            kani::assume(j < 32);
            assert!(buf[at_sha + 4 + j] == MAC_SHA[j]);
        } else {
            assert!(REC_SHA.calls == 0);
        }
        if TAIL & 4 != 0 {
            assert!(buf[at_fp] == 0x80 && buf[at_fp + 1] == 0x28 && buf[at_fp + 2] == 0 && buf[at_fp + 3] == 4, "C02: FINGERPRINT header");
            // CRC input = the message up to FINGERPRINT with the length field already covering it
            // (FINGERPRINT is the last attribute, so that is the final length field).  Both sides
            // use the crc crate (its equivalence with a bitwise CRC-32/ISO-HDLC reference is the
            // c10_crc_* queries' business).
            let want = crc::Crc::<u32>::new(&crc::CRC_32_ISO_HDLC).checksum(&buf[..at_fp]) ^ 0x5354_554e;
            let got = ((buf[at_fp + 4] as u32) << 24) | ((buf[at_fp + 5] as u32) << 16) | ((buf[at_fp + 6] as u32) << 8) | buf[at_fp + 7] as u32;
            assert!(got == want, "C10: value = CRC-32 of the message up to FINGERPRINT (length covering it) XOR 0x5354554e");
        }
        // what a validator will feed to the primitives is the same input (appended attributes do
        // not change it): get_input_text on the final bytes
        if TAIL & 1 != 0 {
            match crate::raw::get_input_text(&buf[..n], 0x0008) {
                Ok(v) => {
                    assert!(v.len() == REC_MI.msg_len);
                    let j: usize = kani::any();
                    kani::assume(j < RCAP);
                    if j < v.len() {
                        assert!(v[j] == REC_MI.msg[j], "C04: attributes appended after MESSAGE-INTEGRITY do not invalidate it");
                    }
                    std::mem::forget(v);
                }
                Err(e) => {
                    std::mem::forget(e);
                    assert!(false);
                }
            }
        }
    }
    std::mem::forget(msg);
}

macro_rules! tail_inst {
    ($($name:ident = $t:expr, unwind $u:expr;)*) => {$(
        #[kani::proof]
        #[kani::unwind($u)]
        #[kani::stub(alloc::fmt::format, nofmt)]
        #[kani::stub(<crate::types::TransactionId as std::default::Default>::default, tid_any)]
        #[kani::stub(crate::strings::opaque_string_enforce, crate::verif_attrs::precis_ascii)]
        #[kani::stub(<crate::attributes::stun::MessageIntegrity as crate::attributes::integrity_attr::HmacSha>::hmac_sha, stub_hmac_sha1)]
        #[kani::stub(<crate::attributes::stun::MessageIntegritySha256 as crate::attributes::integrity_attr::HmacSha>::hmac_sha, stub_hmac_sha256)]
        fn $name() { c04_tail::<$t>(); }
    )*};
}
// FINGERPRINT tails need the crc crate's 256-entry table generation loop (unwind 260)
tail_inst! {
    c04_tail_mi = 1, unwind 36;
    c04_tail_sha = 2, unwind 36;
    c04_tail_mi_sha = 3, unwind 36;
    c10_tail_fp = 4, unwind 260;
    c04_tail_mi_fp = 5, unwind 260;
    c04_tail_sha_fp = 6, unwind 260;
    c04_tail_mi_sha_fp = 7, unwind 260;
}

// C10: the CRC itself — crc::Crc::<u32>::new(&CRC_32_ISO_HDLC).checksum(x) equals a bitwise
// reflected CRC-32 (poly 0xEDB88320, init/xorout 0xFFFFFFFF) written from the ISO-HDLC definition
fn ref_crc32(data: &[u8]) -> u32 {
    let mut crc: u32 = 0xffff_ffff;
    let mut i = 0;
    while i < data.len() {
        crc ^= data[i] as u32;
        let mut k = 0;
        while k < 8 {
            crc = if crc & 1 != 0 { (crc >> 1) ^ 0xedb8_8320 } else { crc >> 1 };
            k += 1;
        }
        i += 1;
    }
    !crc
}
fn c10_crc<const N: usize>() {
    let d: [u8; N] = kani::any();
    let got = crc::Crc::<u32>::new(&crc::CRC_32_ISO_HDLC).checksum(&d);
    assert!(got == ref_crc32(&d), "C10: FINGERPRINT uses CRC-32/ISO-HDLC");
}
macro_rules! crc_inst {
    ($($name:ident = $n:expr;)*) => {$(
        #[kani::proof]
        #[kani::unwind(260)]
        fn $name() { c10_crc::<$n>(); }
    )*};
}
crc_inst! {
    c10_crc_n0 = 0;
    c10_crc_n1 = 1;
    c10_crc_n3 = 3;
    c10_crc_n4 = 4;
    c10_crc_n8 = 8;
}

// =============================================================================================
// C14, 64 KiB boundary.  Sizes are concrete per instance (a symbolic size on a 64 KiB object is out
// of reach: 28-56 GB); the value copy of DATA is stubbed away (sizes only), buffers are
// uninitialised.  Message = DATA(L1 bytes) + DONT-FRAGMENT: attribute bytes = 4 + L1 + pad + 4.
// =============================================================================================
#[cfg(feature = "turn")]
fn stub_data_encode_size_only(this: &crate::attributes::turn::Data, ctx: crate::context::AttributeEncoderContext) -> Result<usize, crate::StunError> {
    let size = this.as_bytes().len();
    crate::common::check_buffer_boundaries(ctx.raw_value(), size)?;
    Ok(size)
}

#[cfg(feature = "turn")]
fn c14_64k<const L1: usize>() {
    use crate::attributes::turn::{Data, DontFragment};
    let mut v: Vec<u8> = Vec::with_capacity(65536);
    unsafe {
        v.set_len(L1);
    }
    let msg = StunMessageBuilder::new(MessageMethod(1), MessageClass::Request)
        .with_transaction_id(TransactionId::from([0u8; 12]))
        .with_attribute(Data::from(v))
        .with_attribute(DontFragment::default())
        .build();
    const N: usize = 65600;
    let mut buf: Vec<u8> = Vec::with_capacity(N);
    unsafe {
        buf.set_len(N);
    }
    let r = MessageEncoderBuilder::default().build().encode(&mut buf, &msg);
    let total = 4 + L1 + ((4 - (L1 & 3)) & 3) + 4;
    match &r {
        Ok(n) => {
            assert!(total <= 65535, "C14: a message that does not fit the 16-bit length field is rejected, not encoded with a wrapped length");
            assert!(*n == 20 + total, "C14: returned size = 20 + attribute bytes (never wrapped)");
            assert!(buf[2] == (total >> 8) as u8 && buf[3] == total as u8);
        }
        Err(_) => assert!(total > 65535, "C14: any message with up to 65535 attribute bytes is encoded"),
    }
    std::mem::forget(r);
    std::mem::forget(msg);
    std::mem::forget(buf);
}

#[cfg(feature = "turn")]
macro_rules! k64_inst {
    ($($name:ident = $l:expr;)*) => {$(
        #[kani::proof]
        #[kani::unwind(4)]
        #[kani::stub(alloc::fmt::format, nofmt)]
        #[kani::stub(<crate::types::TransactionId as std::default::Default>::default, tid_any)]
        #[kani::stub(<crate::attributes::turn::Data as crate::attributes::EncodeAttributeValue>::encode, stub_data_encode_size_only)]
        fn $name() { c14_64k::<$l>(); }
    )*};
}
#[cfg(feature = "turn")]
k64_inst! {
    c14_64k_l65496 = 65496;
    c14_64k_l65508 = 65508;
    c14_64k_l65524 = 65524;
    c14_64k_l65527 = 65527;
    c14_64k_l65528 = 65528;
    c14_64k_l65535 = 65535;
}
