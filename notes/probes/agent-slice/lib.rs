#![allow(dead_code, unused_imports)]
use std::sync::Arc;
use std::ops::Deref;
#[path = "../../real/client.rs"] mod client;
#[path = "../../real/timeout.rs"] mod timeout;
#[path = "../../real/rtt.rs"] mod rtt;
#[path = "../../real/events.rs"] mod events;
mod verif_map;
pub use client::*;
pub use events::*;
pub use message::StunAttributes;

#[derive(Debug, PartialEq, Eq)]
pub enum StunAgentError { Discarded, FingerPrintValidationFailed, Ignored, MaxOutstandingRequestsReached, StunCheckFailed, InternalError(String) }
#[derive(Debug, Clone, Copy, PartialEq, Eq)] pub enum Integrity { MessageIntegrity, MessageIntegritySha256 }
#[derive(Debug, Clone, Copy, PartialEq, Eq)] pub enum CredentialMechanism { ShortTerm(Option<Integrity>), LongTerm }
#[derive(Debug, Clone, Copy, PartialEq, Eq)] pub struct StunPacket { pub token: u32, pub size: usize }
static mut NEXT_PKT: u32 = 0;
impl StunPacket { pub(crate) fn new(buffer: Vec<u8>, size: usize) -> Self { std::mem::forget(buffer); unsafe { NEXT_PKT += 1; StunPacket { token: NEXT_PKT, size } } } }

mod message {
    use stun_rs::*;
    #[derive(Debug, Default, Clone)] pub struct StunAttributes;
    pub fn create_stun_message(_m: MessageMethod, class: MessageClass, tid: Option<TransactionId>, _a: StunAttributes) -> StunMessage {
        StunMessage { class, tid: tid.unwrap_or_default() }
    }
}
mod fingerprint {
    use crate::{message::StunAttributes, StunAgentError};
    pub fn validate_fingerprint(_b: &[u8], _m: &stun_rs::StunMessage) -> Result<bool, StunAgentError> { if kani::any() { Err(StunAgentError::StunCheckFailed) } else { Ok(kani::any()) } }
    pub fn add_fingerprint_attribute(_a: &mut StunAttributes) {}
}
mod integrity {
    #[derive(Debug, Clone, Copy, PartialEq, Eq)] pub enum IntegrityError { Discarded, NotRetryable, ProtectionViolated, Retry }
    pub fn any_result() -> Result<(), IntegrityError> {
        let c: u8 = kani::any();
        match c % 5 { 0 => Ok(()), 1 => Err(IntegrityError::Discarded), 2 => Err(IntegrityError::NotRetryable), 3 => Err(IntegrityError::ProtectionViolated), _ => Err(IntegrityError::Retry) }
    }
}
mod st_cred_mech {
    use crate::{integrity::*, message::StunAttributes, Integrity};
    use stun_rs::*;
    #[derive(Debug)] pub struct ShortTermCredentialClient;
    impl ShortTermCredentialClient {
        pub fn new(_u: stun_rs::attributes::stun::UserName, _k: HMACKey, _i: Option<Integrity>, _r: bool) -> Self { ShortTermCredentialClient }
        pub fn add_attributes(&self, _a: &mut StunAttributes) {}
        pub fn recv_message(&mut self, _b: &[u8], _m: &StunMessage) -> Result<(), IntegrityError> { any_result() }
        pub fn signal_protection_violated_on_timeout(&mut self, _t: &TransactionId) -> bool { kani::any() }
    }
}
mod lt_cred_mech {
    use crate::{integrity::*, message::StunAttributes, StunAgentError};
    use stun_rs::*;
    #[derive(Debug)] pub struct LongTermCredentialClient;
    impl LongTermCredentialClient {
        pub fn new<P: Into<String>>(_u: stun_rs::attributes::stun::UserName, _p: P, _r: bool) -> Self { LongTermCredentialClient }
        pub fn prepare_request(&mut self, _a: &mut StunAttributes) -> Result<(), StunAgentError> { if kani::any() { Ok(()) } else { Err(StunAgentError::InternalError(String::new())) } }
        pub fn prepare_indication(&mut self, _a: &mut StunAttributes) -> Result<(), StunAgentError> { Err(StunAgentError::Ignored) }
        pub fn recv_message(&mut self, _b: &[u8], _m: &StunMessage) -> Result<(), IntegrityError> { any_result() }
        pub fn signal_protection_violated_on_timeout(&mut self, _t: &TransactionId) -> bool { kani::any() }
    }
}
