// C06 / C11 kernels.  Child module of stun-agent/src/timeout.rs (private fields reachable).
#![allow(dead_code, unused_imports)]
use super::*;
use crate::support_time::*;

// =============================================================================================
// C06: RtoManager — one inductive step.
//
// Slots k = 1..RC.  D_k (ns after t0) = (2^k - 1)*RTO for k < RC, D_RC = (2^(RC-1) - 1 + Rm)*RTO.
// Inv(I): the calculator has been stepped I times (rm = 2^I, rc = RC - I), latest = Some(l) with
// l < D_I and last_rto = D_I - l.  Every state a real history of non-decreasing calls reaches
// satisfies Inv(I) for some I (base: c06_first_call; step: c06_step_*).
// One call at any t >= l must return Some(D_j - t) for the first j >= I with D_j > t and establish
// Inv(j), or None iff t >= D_RC.  Reference written from RFC 8489 §6.2.1.
// =============================================================================================
fn units(k: u32, rc: u32, rm: u32) -> u64 {
    // D_k / RTO
    if k == rc {
        ((1u64 << (rc - 1)) - 1) + rm as u64
    } else {
        (1u64 << k) - 1
    }
}

fn c06_first_call<const RTO_MS: u64, const RC: u32>() {
    let rm: u32 = kani::any();
    kani::assume(rm >= 1 && rm <= 32);
    let rto = Duration::from_millis(RTO_MS);
    let mut m = RtoManager::new(rto, rm, RC);
    let t0 = instant_at(1000, 0) + any_offset(100);
    let r = m.next_rto(t0);
    let d1 = RTO_MS * 1_000_000 * units(1, RC, rm);
    match r {
        Some(d) => assert!(ns_of(d) == d1, "C06: first interval is RTO (Rm*RTO when Rc = 1)"),
        None => assert!(false, "C06: a fresh request has a first interval"),
    }
    assert!(m.latest == Some(t0));
    assert!(m.last_rto == r.unwrap());
    assert!(m.calculator.rm == 2 && m.calculator.rc == RC - 1);
}

fn c06_step<const RTO_MS: u64, const RC: u32, const I: u32>() {
    let rto_ns: u64 = RTO_MS * 1_000_000;
    let rm: u32 = kani::any();
    kani::assume(rm >= 1 && rm <= 32);
    let t0 = instant_at(1000, 0);
    // pre-state satisfying Inv(I)
    let d_i = rto_ns * units(I, RC, rm);
    let lat = any_offset(700);
    let last = any_offset(700);
    kani::assume(ns_of(lat) + ns_of(last) == d_i && ns_of(last) > 0);
    let mut m = RtoManager::new(Duration::from_millis(RTO_MS), rm, RC);
    m.latest = Some(t0 + lat);
    m.last_rto = last;
    m.calculator.rm = 1u32 << I;
    m.calculator.rc = RC - I;
    // one call at an arbitrary instant not before the previous one
    let off = any_offset(700);
    let t_ns = ns_of(off);
    kani::assume(t_ns >= ns_of(lat));
    let t = t0 + off;
    let r = m.next_rto(t);
    // reference
    let mut exp: Option<(u32, u64)> = None;
    let mut k = I;
    while k <= RC {
        let d_k = rto_ns * units(k, RC, rm);
        if exp.is_none() && d_k > t_ns {
            exp = Some((k, d_k));
        }
        k += 1;
    }
    match (exp, r) {
        (Some((j, d_j)), Some(d)) => {
            assert!(ns_of(d) == d_j - t_ns, "C06: returned interval ends at the schedule's next slot");
            assert!(m.latest == Some(t), "C06: Inv: latest");
            assert!(ns_of(m.last_rto) == d_j - t_ns, "C06: Inv: last_rto");
            assert!(m.calculator.rc == RC - j && m.calculator.rm == (1u32 << j), "C06: Inv: slot index");
        }
        (None, None) => {
            assert!(t_ns >= rto_ns * units(RC, RC, rm), "C06: failure never before the final deadline");
        }
        (Some(_), None) => assert!(false, "C06: reported timed out before the final deadline"),
        (None, Some(_)) => assert!(false, "C06: no failure at or after the final deadline"),
    }
    kani::cover!(r.is_none());
    if I < RC {
        kani::cover!(r.is_some() && t_ns >= d_i);
    }
    kani::cover!(r.is_some() && t_ns < d_i);
}

macro_rules! c06_inst {
    ($($name:ident = $f:ident($($a:expr),*) unwind $u:expr;)*) => {$(
        #[kani::proof]
        #[kani::unwind($u)]
        #[kani::stub(std::time::Instant::checked_duration_since, cds_nonrecursive)]
        fn $name() { $f::<$($a),*>(); }
    )*};
}
c06_inst! {
    c06_first_rto500_rc7 = c06_first_call(500, 7) unwind 3;
    c06_first_rto500_rc1 = c06_first_call(500, 1) unwind 3;
    c06_first_rto3000_rc3 = c06_first_call(3000, 3) unwind 3;
    c06_step_rto500_rc7_i1 = c06_step(500, 7, 1) unwind 10;
    c06_step_rto500_rc7_i2 = c06_step(500, 7, 2) unwind 10;
    c06_step_rto500_rc7_i3 = c06_step(500, 7, 3) unwind 10;
    c06_step_rto500_rc7_i4 = c06_step(500, 7, 4) unwind 10;
    c06_step_rto500_rc7_i5 = c06_step(500, 7, 5) unwind 10;
    c06_step_rto500_rc7_i6 = c06_step(500, 7, 6) unwind 10;
    c06_step_rto500_rc7_i7 = c06_step(500, 7, 7) unwind 10;
    c06_step_rto500_rc1_i1 = c06_step(500, 1, 1) unwind 4;
    c06_step_rto500_rc2_i1 = c06_step(500, 2, 1) unwind 5;
    c06_step_rto500_rc2_i2 = c06_step(500, 2, 2) unwind 5;
    c06_step_rto1_rc4_i1 = c06_step(1, 4, 1) unwind 7;
    c06_step_rto1_rc4_i3 = c06_step(1, 4, 3) unwind 7;
    c06_step_rto3000_rc3_i1 = c06_step(3000, 3, 1) unwind 6;
    c06_step_rto3000_rc3_i2 = c06_step(3000, 3, 2) unwind 6;
    c06_step_rto3000_rc3_i3 = c06_step(3000, 3, 3) unwind 6;
    c06_step_rto500_rc10_i1 = c06_step(500, 10, 1) unwind 13;
    c06_step_rto500_rc10_i5 = c06_step(500, 10, 5) unwind 13;
    c06_step_rto500_rc10_i9 = c06_step(500, 10, 9) unwind 13;
    c06_step_rto500_rc10_i10 = c06_step(500, 10, 10) unwind 13;
    c06_step_rto100_rc5_i1 = c06_step(100, 5, 1) unwind 8;
    c06_step_rto100_rc5_i3 = c06_step(100, 5, 3) unwind 8;
    c06_step_rto100_rc5_i5 = c06_step(100, 5, 5) unwind 8;
    c06_step_rto250_rc4_i2 = c06_step(250, 4, 2) unwind 7;
    c06_step_rto250_rc4_i4 = c06_step(250, 4, 4) unwind 7;
}

// the default chain 0/500/1500/3500/7500/15500/31500 ms and failure at 39500 ms, on-time calls
#[kani::proof]
#[kani::unwind(10)]
#[kani::stub(std::time::Instant::checked_duration_since, cds_nonrecursive)]
fn c06_default_chain() {
    let mut m = RtoManager::new(DEFAULT_RTO, DEFAULT_RM, DEFAULT_RC);
    let t0 = instant_at(5, 250);
    let at = [0u64, 500, 1500, 3500, 7500, 15500, 31500];
    let mut i = 0;
    while i < 7 {
        let r = m.next_rto(t0 + Duration::from_millis(at[i]));
        let next = if i == 6 { 39500 } else { at[i + 1] };
        assert!(r == Some(Duration::from_millis(next - at[i])));
        i += 1;
    }
    assert!(m.next_rto(t0 + Duration::from_millis(39500)).is_none());
}

// =============================================================================================
// C11 kernel: StunMessageTimeout (min-queue of deadlines over std's BinaryHeap).
// State = the queue after N `add` calls with arbitrary (instant, timeout, id); then one operation.
// =============================================================================================
fn tid(b: u8) -> TransactionId {
    TransactionId::from([b; 12])
}

#[derive(Clone, Copy)]
struct Entry {
    exp: Instant, // expiry
    id: u8,
}

fn c11_queue<const N: usize, const OP: u8>() {
    let epoch = instant_at(2000, 0);
    let mut q = StunMessageTimeout::default();
    let mut ents: [Entry; 3] = [Entry { exp: epoch, id: 0 }; 3];
    let mut i = 0;
    while i < N {
        let at = any_offset(100);
        let to = any_offset(100);
        let id: u8 = kani::any();
        kani::assume(id < 4);
        q.add(epoch + at, to, tid(id));
        ents[i] = Entry { exp: (epoch + at) + to, id };
        i += 1;
    }
    let t = epoch + any_offset(250);
    if OP == 0 {
        // next_timeout: names an entry with minimal expiry; remaining time saturates at zero
        let r = q.next_timeout(t);
        if N == 0 {
            assert!(r.is_none());
        } else {
            let mut min = ents[0].exp;
            let mut k = 1;
            while k < N {
                if ents[k].exp < min {
                    min = ents[k].exp;
                }
                k += 1;
            }
            match r {
                None => assert!(false, "C11: a non-empty queue has a next deadline"),
                Some((id, d)) => {
                    let want = if min > t { min - t } else { Duration::ZERO };
                    assert!(d == want, "C11: remaining time = earliest expiry - now, zero if overdue");
                    let mut named = false;
                    let mut k = 0;
                    while k < N {
                        if ents[k].exp == min && ents[k].id == id.as_bytes()[0] {
                            named = true;
                        }
                        k += 1;
                    }
                    assert!(named, "C11: the id named has the earliest deadline");
                    kani::cover!(want == Duration::ZERO);
                    kani::cover!(want > Duration::ZERO);
                }
            }
        }
    } else if OP == 1 {
        // check: pops exactly the entries with expiry <= t
        let v = q.check(t);
        let mut due = 0usize;
        let mut k = 0;
        while k < N {
            if ents[k].exp <= t {
                due += 1;
            }
            k += 1;
        }
        assert!(v.len() == due, "C11: check() pops exactly the due entries");
        let mut idv = 0u8;
        while idv < 4 {
            let mut a = 0usize;
            let mut b = 0usize;
            let mut k = 0;
            while k < N {
                if ents[k].exp <= t && ents[k].id == idv {
                    a += 1;
                }
                k += 1;
            }
            let mut k = 0;
            while k < v.len() {
                if v[k].as_bytes()[0] == idv {
                    b += 1;
                }
                k += 1;
            }
            assert!(a == b, "C11: popped ids are exactly the due ids");
            idv += 1;
        }
        match q.next_timeout(t) {
            Some((_, d)) => assert!(d > Duration::ZERO && due < N, "C11: what is left is not due"),
            None => assert!(due == N),
        }
        kani::cover!(due > 0 && due < N);
        kani::cover!(due == N && N > 0);
        std::mem::forget(v);
    } else {
        // remove(id): removes all and only that id
        let id: u8 = kani::any();
        kani::assume(id < 4);
        q.remove(&tid(id));
        let far = epoch + Duration::from_secs(100_000);
        let v = q.check(far);
        let mut left = 0usize;
        let mut k = 0;
        while k < N {
            if ents[k].id != id {
                left += 1;
            }
            k += 1;
        }
        assert!(v.len() == left, "C11: remove(id) removes all and only the entries of that id");
        let mut k = 0;
        while k < v.len() {
            assert!(v[k].as_bytes()[0] != id);
            k += 1;
        }
        kani::cover!(left < N);
        std::mem::forget(v);
    }
    std::mem::forget(q);
}

macro_rules! c11_inst {
    ($($name:ident = ($n:expr, $op:expr) unwind $u:expr;)*) => {$(
        #[kani::proof]
        #[kani::unwind($u)]
        #[kani::stub(std::time::Instant::checked_duration_since, cds_nonrecursive)]
        fn $name() { c11_queue::<$n, $op>(); }
    )*};
}
c11_inst! {
    c11_next_n0 = (0, 0) unwind 6;
    c11_next_n1 = (1, 0) unwind 6;
    c11_next_n2 = (2, 0) unwind 6;
    c11_next_n3 = (3, 0) unwind 6;
    c11_check_n1 = (1, 1) unwind 8;
    c11_check_n2 = (2, 1) unwind 8;
    c11_check_n3 = (3, 1) unwind 9;
    c11_remove_n1 = (1, 2) unwind 13;
    c11_remove_n2 = (2, 2) unwind 13;
}
