"""Second engine (DESIGN §3 C14): the 16-bit length accumulator of MessageEncoder::encode at the
64 KiB boundary, decided on the compiler's MIR of the working tree with z3 (cross-checked with cvc5).

The translator is deliberately narrow: integer locals are bit-vectors; AddWithOverflow / Add / casts /
switchInt / assert / the `?` plumbing (map_err, Try::branch, from_residual) / u16::try_from /
usize::try_into / Into<usize> / common::padding (its own MIR is interpreted) are exact; EVERY OTHER
CALL IS HAVOCKED (integer results are fresh unconstrained variables, memory effects are ignored).
One loop iteration + the epilogue are explored path by path from the loop head, from an arbitrary
accumulator value that real messages reach (multiple of 4, <= 65535).

Obligations
  dev MIR   (overflow-checks=on):  no `assert(!overflow)` on any path is violable            (no panic)
  release   (overflow-checks=off): on the path that re-enters the loop the accumulator grew by
            exactly the attribute's padded size as a mathematical integer (no wrap), and the
            epilogue returns 20 + accumulator as a mathematical integer (no wrapped size)
A `sat` answer is turned into a concrete message and replayed natively (dev and release builds).
"""
import os
import re
import subprocess
import time

NIGHTLY_FLAGS = {
    "dev": ["-C", "debug-assertions=off", "-C", "overflow-checks=on"],
    "release": ["-C", "debug-assertions=off", "-C", "overflow-checks=off", "-C", "opt-level=0"],
}
INT_BITS = {"u8": 8, "u16": 16, "u32": 32, "u64": 64, "usize": 64, "i8": 8, "i16": 16, "i32": 32, "i64": 64, "isize": 64, "bool": 1}


def dump_mir(src_root, mode, out_path, tgt):
    cdir = os.path.join(src_root, "stun-rs")
    os.utime(os.path.join(cdir, "src", "lib.rs"), None)
    env = dict(os.environ, CARGO_TARGET_DIR=tgt, CARGO_NET_OFFLINE="true")
    cmd = ["cargo", "+nightly", "rustc", "--offline", "--lib", "--features", "turn", "--", "-Zunpretty=mir"] + NIGHTLY_FLAGS[mode]
    with open(out_path, "w") as f:
        p = subprocess.run(cmd, cwd=cdir, env=env, stdout=f, stderr=subprocess.PIPE, text=True)
    if p.returncode != 0 or os.path.getsize(out_path) < 1000:
        raise RuntimeError("MIR dump failed: " + p.stderr[-400:])
    return open(out_path).read()


class Fn:
    def __init__(self, header, body):
        self.header = header
        self.locals = {}   # _N -> type string
        self.debug = {}    # name -> _N
        self.blocks = {}   # bbN -> (statements, terminator)
        m = re.search(r"\((.*)\) -> (.*) \{", header)
        if m:
            for a in re.finditer(r"(_\d+): ([^,]+(?:<[^>]*>)?[^,]*)", m.group(1)):
                self.locals[a.group(1)] = a.group(2).strip()
            self.locals["_0"] = m.group(2).strip()
        for l in body.splitlines():
            l = l.strip()
            m = re.match(r"let (?:mut )?(_\d+): (.*);$", l)
            if m:
                self.locals[m.group(1)] = m.group(2)
            m = re.match(r"debug (\w+) => (_\d+);", l)
            if m:
                self.debug[m.group(1)] = m.group(2)
        for m in re.finditer(r"\n    (bb\d+)(?: \(cleanup\))?: \{\n(.*?)\n    \}", body, re.S):
            lines = [x.strip() for x in m.group(2).splitlines() if x.strip()]
            self.blocks[m.group(1)] = (lines[:-1], lines[-1])


def find_fn(mir, pattern):
    m = re.search(r"\nfn (?:[^\n(]*::)?" + pattern + r"[^\n]*\{\n", mir) or re.search(r"\nfn [^\n]*" + pattern + r"[^\n]*\{\n", mir)
    if not m:
        return None
    start = m.start() + 1
    end = mir.index("\n}\n", m.end())
    return Fn(mir[start:m.end()].strip(), mir[m.end() - 1:end + 2])


def const_value(mir, path):
    """value of a named const such as raw::MESSAGE_HEADER_SIZE from the dump (`const NAME: ty = const N_ty;`)"""
    name = path.split("::")[-1]
    ms = re.findall(r"\nconst (?:[\w:]*::)?" + re.escape(name) + r": (\w+) = const (\d+)_(\w+);", mir)
    vals = set((int(v), t) for (_, v, t) in ms)
    if len(vals) == 1:
        return vals.pop()
    return None


class Solver:
    def __init__(self):
        self.decls = []
        self.n = 0
        self.queries = 0
        self.time = 0.0

    def fresh(self, hint, bits):
        self.n += 1
        name = "%s_%d" % (re.sub(r"\W", "_", hint), self.n)
        self.decls.append("(declare-const %s %s)" % (name, "Bool" if bits == 1 else "(_ BitVec %d)" % bits))
        return name

    def check(self, assertions, want_vars=(), binary="/usr/bin/z3"):
        """returns ('sat', model dict) | ('unsat', None) | ('unknown', text)"""
        txt = ["(set-logic ALL)", "(set-option :produce-models true)"] + self.decls + ["(assert %s)" % a for a in assertions] + ["(check-sat)"]
        if want_vars:
            txt.append("(get-value (%s))" % " ".join(want_vars))
        t0 = time.time()
        if "cvc5" in binary:
            cmd = [binary, "--lang", "smt2", "--produce-models"]
        else:
            cmd = [binary, "-in", "-T:120"]
        p = subprocess.run(cmd, input="\n".join(txt) + "\n", stdout=subprocess.PIPE, stderr=subprocess.STDOUT, text=True)
        self.time += time.time() - t0
        self.queries += 1
        out = p.stdout
        first = out.strip().splitlines()[0] if out.strip() else ""
        if first == "unsat":
            # (get-value after unsat prints an error: expected).  Any other error line = inconclusive.
            rest = "\n".join(out.strip().splitlines()[1:])
            if "(error" in rest and "model is not available" not in rest:
                return "unknown", out
            return "unsat", None
        if "(error" in out:
            return "unknown", out
        if first == "sat":
            model = {}
            for m in re.finditer(r"\((\w+) (#x[0-9a-f]+|#b[01]+|true|false)\)", out):
                v = m.group(2)
                model[m.group(1)] = int(v[2:], 16) if v.startswith("#x") else (int(v[2:], 2) if v.startswith("#b") else (1 if v == "true" else 0))
            return "sat", model
        return "unknown", out


def bvc(v, bits):
    return "(_ bv%d %d)" % (v % (1 << bits), bits)


def zext(t, frm, to):
    if to == frm:
        return t
    if to > frm:
        return "((_ zero_extend %d) %s)" % (to - frm, t)
    return "((_ extract %d 0) %s)" % (to - 1, t)


class Val:
    """int: term,bits | tuple: items | enum: disc(term bv8), payload(Val|None)"""
    def __init__(self, kind, **kw):
        self.kind = kind
        self.__dict__.update(kw)


class Engine:
    def __init__(self, mir, mode):
        self.mir = mir
        self.mode = mode
        self.s = Solver()
        self.fn = find_fn(mir, r"::encode\(_1: &MessageEncoder")
        if self.fn is None:
            raise RuntimeError("MessageEncoder::encode not found in the MIR dump")
        self.acc = self.fn.debug.get("length")
        if self.acc is None or self.fn.locals.get(self.acc) != "u16":
            raise RuntimeError("the u16 accumulator `length` was not found (MIR shape changed): %r" % (self.fn.debug,))
        self.padding_fn = find_fn(mir, r"(?:common::)?padding\(_1: usize\) -> usize")
        self.results = []       # obligations
        self._pending_delta = None
        self._last_size = None
        self.havocked = set()
        self.modelled = set()

    # ---- values -------------------------------------------------------------------------------
    def havoc(self, ty, hint):
        ty = ty.strip()
        if ty in INT_BITS:
            b = INT_BITS[ty]
            t = self.s.fresh(hint, b)
            return Val("int", term=t, bits=b)
        m = re.match(r"\((\w+), (\w+)\)$", ty)
        if m and m.group(1) in INT_BITS and m.group(2) in INT_BITS:
            return Val("tuple", items=[self.havoc(m.group(1), hint + "_0"), self.havoc(m.group(2), hint + "_1")])
        m = re.match(r"(?:std::result::)?Result<(\w+|\(\)),", ty) or re.match(r"std::ops::ControlFlow<.*, (\w+)>$", ty) or re.match(r"(?:std::option::)?Option<(\w+)>$", ty)
        if "ControlFlow<" in ty or ty.startswith(("std::result::Result<", "Result<", "std::option::Option<", "Option<")):
            disc = self.s.fresh(hint + "_disc", 8)
            payload = None
            if m and m.group(1) in INT_BITS:
                payload = self.havoc(m.group(1), hint + "_ok")
            return Val("enum", disc=disc, payload=payload, assume=["(bvule %s #x01)" % disc])
        return Val("opaque")

    def operand(self, st, op):
        op = op.strip()
        m = re.match(r"(?:copy|move) (_\d+)$", op)
        if m:
            return st.get(m.group(1)) or self.havoc(self.fn.locals.get(m.group(1), "?"), m.group(1))
        m = re.match(r"(?:copy|move) \((_\d+)\.(\d): \w+\)$", op)
        if m:
            v = st.get(m.group(1))
            if v and v.kind == "tuple":
                return v.items[int(m.group(2))]
            return self.havoc("usize", "fld")
        m = re.match(r"const (\d+)_(\w+)$", op)
        if m:
            return Val("int", term=bvc(int(m.group(1)), INT_BITS[m.group(2)]), bits=INT_BITS[m.group(2)])
        m = re.match(r"const (true|false)$", op)
        if m:
            return Val("int", term=m.group(1), bits=1)
        m = re.match(r"const ([\w:]+)$", op)
        if m:
            cv = const_value(self.mir, m.group(1))
            if cv:
                return Val("int", term=bvc(cv[0], INT_BITS[cv[1]]), bits=INT_BITS[cv[1]])
        return Val("opaque")

    # ---- callee: straight-line integer function (common::padding) --------------------------------
    def inline_int_fn(self, fn, arg):
        st = {"_1": arg}
        bb = "bb0"
        for _ in range(20):
            stmts, term = fn.blocks[bb]
            for s_ in stmts:
                self.statement(fn, st, s_, [], None)
            m = re.match(r"assert\(.*\) -> \[success: (bb\d+)", term)
            if m:
                bb = m.group(1)   # overflow inside padding(): 4 - (x & 3) cannot overflow; checked by obligation O1 only in encode
                continue
            m = re.match(r"goto -> (bb\d+);", term)
            if m:
                bb = m.group(1)
                continue
            if term.startswith("return"):
                return st.get("_0")
            return None
        return None

    # ---- statements ---------------------------------------------------------------------------
    def statement(self, fn, st, s_, pc, acc_info):
        m = re.match(r"(_\d+) = (.*);$", s_)
        if not m:
            return
        dst, rhs = m.group(1), m.group(2)
        ty = fn.locals.get(dst, "?")
        mo = re.match(r"(AddWithOverflow|Add|SubWithOverflow|Sub|BitAnd|BitOr)\((.*), (.*)\)$", rhs)
        if mo:
            a, b = self.operand(st, mo.group(2)), self.operand(st, mo.group(3))
            if a.kind != "int" or b.kind != "int":
                st[dst] = self.havoc(ty, dst)
                return
            op = mo.group(1)
            bits = a.bits
            base = {"Add": "bvadd", "Sub": "bvsub", "BitAnd": "bvand", "BitOr": "bvor"}[op.replace("WithOverflow", "")]
            res = "(%s %s %s)" % (base, a.term, b.term)
            if op.endswith("WithOverflow"):
                if base == "bvadd":
                    ovf = "(bvult %s %s)" % (res, a.term)
                else:
                    ovf = "(bvult %s %s)" % (a.term, b.term)
                st[dst] = Val("tuple", items=[Val("int", term=res, bits=bits), Val("int", term=ovf, bits=1)])
            else:
                st[dst] = Val("int", term=res, bits=bits)
            if acc_info is not None and base == "bvadd":
                for x, y in ((mo.group(2), b), (mo.group(3), a)):
                    if re.match(r"copy " + re.escape(self.acc) + "$", x.strip()):
                        acc_info["delta"] = y
                        acc_info["via"] = dst
            return
        mo = re.match(r"(.*) as (\w+) \(IntToInt\)$", rhs)
        if mo:
            a = self.operand(st, mo.group(1))
            bits = INT_BITS.get(mo.group(2))
            if a.kind == "int" and bits:
                st[dst] = Val("int", term=zext(a.term, a.bits, bits), bits=bits)
            else:
                st[dst] = self.havoc(ty, dst)
            return
        mo = re.match(r"discriminant\((_\d+)\)$", rhs)
        if mo:
            v = st.get(mo.group(1))
            if v and v.kind == "enum":
                st[dst] = Val("int", term=zext(v.disc, 8, 64), bits=64, fail=getattr(v, "fail", None))
            else:
                st[dst] = self.havoc("isize", dst)
            return
        mo = re.match(r"(?:copy|move) \(\((_\d+) as \w+\)\.0: (\w+)\)$", rhs)
        if mo:
            v = st.get(mo.group(1))
            if v and v.kind == "enum" and v.payload is not None:
                st[dst] = v.payload
            else:
                st[dst] = self.havoc(mo.group(2), dst)
            return
        mo = re.match(r"Result::<.*>::Ok\((.*)\)$", rhs)
        if mo:
            p = self.operand(st, mo.group(1))
            st[dst] = Val("enum", disc="#x00", payload=p if p.kind == "int" else None, assume=[])
            return
        if re.match(r"(?:copy|move) (_\d+)$", rhs) or re.match(r"(?:copy|move) \((_\d+)\.(\d): \w+\)$", rhs) or rhs.startswith("const "):
            v = self.operand(st, rhs)
            st[dst] = v if v.kind != "opaque" else self.havoc(ty, dst)
            return
        st[dst] = self.havoc(ty, dst)   # references, aggregates, closures: not tracked

    def call(self, st, dst, callee, args, pc):
        ty = self.fn.locals.get(dst, "?")
        a0 = self.operand(st, args[0]) if args else None
        def note(kind):
            (self.modelled if kind else self.havocked).add(re.sub(r"\{closure@[^}]*\}", "{closure}", callee)[:110])
        if " as Try>::branch" in callee and a0 is not None and a0.kind == "enum":
            note(1)
            return Val("enum", disc=a0.disc, payload=a0.payload, assume=[], fail=getattr(a0, "fail", None))
        if "::map_err::<" in callee and a0 is not None and a0.kind == "enum":
            note(1)
            return Val("enum", disc=a0.disc, payload=a0.payload, assume=[], fail=getattr(a0, "fail", None))
        if ("as TryInto<u16>>::try_into" in callee or "<u16 as TryFrom<usize>>::try_from" in callee) and a0 is not None and a0.kind == "int":
            note(1)
            disc = "(ite (bvule %s %s) #x00 #x01)" % (a0.term, bvc(65535, a0.bits))
            return Val("enum", disc=disc, payload=Val("int", term=zext(a0.term, a0.bits, 16), bits=16), assume=[], fail=1)   # Err = the value does not fit 16 bits
        if re.search(r"<u16 as (Into<usize>>::into|From<.*)|<usize as From<u16>>::from", callee) and a0 is not None and a0.kind == "int":
            note(1)
            return Val("int", term=zext(a0.term, a0.bits, 64), bits=64)
        if re.search(r"core::num::<impl u(16|32|64|size)>::checked_add$", callee.strip()) and a0 is not None and a0.kind == "int" and len(args) == 2:
            b0 = self.operand(st, args[1])
            if b0.kind == "int":
                note(1)
                res = "(bvadd %s %s)" % (a0.term, b0.term)
                # Option: None = 0, Some = 1
                disc = "(ite (bvult %s %s) #x00 #x01)" % (res, a0.term)
                v = Val("enum", disc=disc, payload=Val("int", term=res, bits=a0.bits), assume=[], fail=0)   # None = the sum does not fit
                # remember what the accumulator is being advanced by (release obligation)
                if self._acc_operand(args[0], st):
                    self._pending_delta = b0
                elif self._acc_operand(args[1], st):
                    self._pending_delta = a0
                return v
        if re.search(r"Option::<\w+>::ok_or(_else)?::<", callee) and a0 is not None and a0.kind == "enum":
            note(1)
            # Some(x) -> Ok(x) (disc 0), None -> Err (disc 1)
            return Val("enum", disc="(ite (= %s #x01) #x00 #x01)" % a0.disc, payload=a0.payload, assume=[], fail=(1 if getattr(a0, "fail", None) == 0 else None))
        if re.match(r"padding$", callee.strip()) and self.padding_fn is not None and a0 is not None and a0.kind == "int":
            r = self.inline_int_fn(self.padding_fn, a0)
            if r is not None and r.kind == "int":
                note(1)
                return r
        if "from_residual" in callee:
            note(1)
            return Val("enum", disc="#x01", payload=None, assume=[])
        note(0)
        v = self.havoc(ty, dst)
        if v.kind == "enum":
            pc.extend(v.assume)
            if v.payload is not None and v.payload.bits == 64:
                self._last_size = v.payload
                # sizes handed back by callees are object sizes: <= isize::MAX (Rust allocation limit)
                pc.append("(bvule %s #x7fffffffffffffff)" % v.payload.term)
        return v

    def _acc_operand(self, op, st):
        """is this operand the accumulator (directly or a copy made in this block)?"""
        m = re.match(r"\s*(?:copy|move) (_\d+)$", op)
        if not m:
            return False
        if m.group(1) == self.acc:
            return True
        v, a = st.get(m.group(1)), st.get(self.acc)
        return v is not None and a is not None and v.kind == "int" and a.kind == "int" and v.term == a.term

    # ---- exploration ----------------------------------------------------------------------------
    def run(self):
        fn = self.fn
        head = None
        for bb, (stmts, term) in fn.blocks.items():
            if "as std::iter::Iterator>::next(" in term or "as Iterator>::next(" in term:
                head = bb
        if head is None:
            raise RuntimeError("loop head (Iterator::next call) not found")
        acc_pre = self.s.fresh("length_pre", 16)
        pre = ["(= ((_ extract 1 0) %s) #b00)" % acc_pre]   # every reachable accumulator value is a multiple of 4
        st0 = {self.acc: Val("int", term=acc_pre, bits=16)}
        self.acc_pre = acc_pre
        self.paths = 0
        self._dfs(head, dict(st0), list(pre), {"delta": None}, head, 0, [head])
        return self.results

    def _dfs(self, bb, st, pc, acc_info, head, depth, trail):
        fn = self.fn
        if depth > 200:
            raise RuntimeError("path too long")
        stmts, term = fn.blocks[bb]
        for s_ in stmts:
            self.statement(fn, st, s_, pc, acc_info)
        # terminators
        m = re.match(r"goto -> (bb\d+);", term)
        if m:
            return self._next(m.group(1), st, pc, acc_info, head, depth, trail)
        if term.startswith("unreachable"):
            return
        if term.startswith("return"):
            self.paths += 1
            r = st.get("_0")
            sz = acc_info.get("size")
            if acc_info.get("limit_fail") and sz is not None and sz.kind == "int":
                # the iteration ended on the failing side of a 16-bit range check (try_from / checked_add): that is
                # only allowed when the attribute really does not fit (the havocked attribute encoder returns the
                # VALUE size; the TLV header and the padding are the encoder's)
                s64 = zext(sz.term, sz.bits, 64)
                pad = "(bvand (bvsub #x0000000000000004 (bvand %s #x0000000000000003)) #x0000000000000003)" % s64
                # attribute bytes = 4-byte TLV header + value + padding
                total = "(bvadd (bvadd %s #x0000000000000004) (bvadd %s %s))" % (zext(self.acc_pre, 16, 64), s64, pad)
                fits = "(bvule %s #x000000000000ffff)" % total
                self._oblige("both: a 16-bit limit error only when accumulator + attribute size + padding exceeds 65535", pc + [fits], trail, acc_info, st)
                # vacuity witness: the failing side itself must be reachable (expected sat)
                wres, _ = self.s.check(list(pc))
                self.limit_witness = getattr(self, "limit_witness", 0) + (1 if wres == "sat" else 0)
            if r is not None and r.kind == "enum" and r.payload is not None and self.mode == "release":
                # epilogue: Ok(x) must be 20 + accumulator as mathematical integers
                cond = "(and (= %s #x00) (not (= %s (bvadd %s %s))))" % (r.disc, r.payload.term, zext(self.acc_pre, 16, 64), bvc(20, 64))
                self._oblige("release: returned size == 20 + attribute bytes (no wrap)", pc + [cond], trail, acc_info, st)
            return
        m = re.match(r"switchInt\((?:move|copy) (_\d+)\) -> \[(.*)\];", term)
        if m:
            v = st.get(m.group(1))
            arms = [a.strip() for a in m.group(2).split(",")]
            seen = []
            for a in arms:
                k, t = a.split(": ")
                if k == "otherwise":
                    if v is not None and v.kind == "int":
                        cond = "(and %s)" % " ".join("(not (= %s %s))" % (v.term, bvc(int(x), v.bits)) for x in seen) if seen else "true"
                    else:
                        cond = "true"
                else:
                    seen.append(k)
                    cond = "(= %s %s)" % (v.term, bvc(int(k), v.bits)) if v is not None and v.kind == "int" else "true"
                if fn.blocks[t][1].startswith("unreachable") and not fn.blocks[t][0]:
                    continue
                ai = dict(acc_info)
                fl = getattr(v, "fail", None) if v is not None else None
                if fl is not None and ((k != "otherwise" and int(k) == fl) or (k == "otherwise" and str(fl) not in seen)):
                    ai["limit_fail"] = True
                self._next(t, dict(st), pc + [cond], ai, head, depth, trail)
            return
        m = re.match(r"assert\(!(?:move|copy) \((_\d+)\.1: bool\), \"(.*?)\".*\) -> \[success: (bb\d+)", term)
        if m:
            v = st.get(m.group(1))
            if v is not None and v.kind == "tuple":
                ovf = v.items[1].term
                self._oblige("dev: no arithmetic overflow panic at `%s` (%s)" % (m.group(2)[:40], bb), pc + [ovf], trail, acc_info, st)
                return self._next(m.group(3), st, pc + ["(not %s)" % ovf], acc_info, head, depth, trail)
            return self._next(m.group(3), st, pc, acc_info, head, depth, trail)
        m = re.match(r"(_\d+) = (.*) -> \[return: (bb\d+)", term)
        if m and m.group(2).endswith(")"):
            dst, callexpr, nxt = m.group(1), m.group(2), m.group(3)
            # the argument list is the LAST balanced parenthesis group (type paths contain `()` too)
            d, i = 0, len(callexpr) - 1
            while i >= 0:
                if callexpr[i] == ")":
                    d += 1
                elif callexpr[i] == "(":
                    d -= 1
                    if d == 0:
                        break
                i -= 1
            callee, args = callexpr[:i], callexpr[i + 1:-1]
            parts, d, cur = [], 0, ""
            for ch in args:
                if ch in "(<[{":
                    d += 1
                if ch in ")>]}":
                    d -= 1
                if ch == "," and d == 0:
                    parts.append(cur)
                    cur = ""
                else:
                    cur += ch
            if cur.strip():
                parts.append(cur)
            self._pending_delta = None
            self._last_size = None
            st[dst] = self.call(st, dst, callee, parts, pc)
            if self._pending_delta is not None:
                acc_info["delta"] = self._pending_delta
            if self._last_size is not None and "size" not in acc_info:
                acc_info["size"] = self._last_size   # the first size a havocked callee returns in the iteration: the attribute's value size
            return self._next(nxt, st, pc, acc_info, head, depth, trail)
        raise RuntimeError("unsupported terminator: " + term[:120])

    def _next(self, bb, st, pc, acc_info, head, depth, trail):
        if bb == head:
            # one full iteration done: the accumulator must have grown by exactly delta (no wrap)
            self.paths += 1
            post = st.get(self.acc)
            d = acc_info.get("delta")
            if self.mode == "release" and post is not None and post.kind == "int" and d is not None and d.kind == "int":
                cond = "(not (= %s (bvadd %s %s)))" % (zext(post.term, 16, 64), zext(self.acc_pre, 16, 64), zext(d.term, d.bits, 64))
                self._oblige("release: accumulator grows by the attribute's padded size as an integer (no wrap)", pc + [cond], trail + [bb], acc_info, st)
            return
        return self._dfs(bb, st, pc, acc_info, head, depth + 1, trail + [bb])

    def _oblige(self, what, assertions, trail, acc_info, st):
        want = [self.acc_pre]
        # the attribute's value size = payload of the havocked attribute-encode call, if on this path
        vs = [d for d in self.s.decls if "_ok_" in d and "BitVec 64" in d]
        names = [re.match(r"\(declare-const (\w+)", d).group(1) for d in vs]
        res, model = self.s.check(assertions, want_vars=want + names)
        self.results.append({"obligation": what, "mode": self.mode, "path": "->".join(trail[-6:]), "result": res,
                             "model": model if res == "sat" else None, "assertions": assertions if res != "unsat" else None})


def native_replay(src_root, tgt, length_pre, value_size):
    """message with `length_pre` attribute bytes already encoded, then (if value_size is not None) one
    DATA attribute with value_size bytes; the real encoder must neither panic nor return a wrong size."""
    test = '''
use stun_rs::attributes::turn::Data;
use stun_rs::methods::BINDING;
use stun_rs::{MessageClass, MessageEncoderBuilder, StunMessageBuilder};

#[test]
fn verif_replay_c14() {
    let pre: usize = %d;
    let step: Option<usize> = %s;
    let mut b = StunMessageBuilder::new(BINDING, MessageClass::Request);
    let mut total = 0usize;
    if pre >= 4 {
        b = b.with_attribute(Data::new(vec![0u8; pre - 4]));
        total += pre;
    }
    if let Some(v) = step {
        b = b.with_attribute(Data::new(vec![0u8; v]));
        total += 4 + v + ((4 - (v & 3)) & 3);
    }
    let msg = b.build();
    let mut buf = vec![0u8; total + 64];
    let r = std::panic::catch_unwind(std::panic::AssertUnwindSafe(|| MessageEncoderBuilder::default().build().encode(&mut buf, &msg)));
    match r {
        Err(_) => panic!("C14: encode panicked for a message with {} attribute bytes", total),
        Ok(Ok(n)) => assert!(total <= 65535 && n == 20 + total, "C14: encode returned Ok({}) for {} attribute bytes", n, total),
        Ok(Err(_)) => assert!(total > 65535, "C14: a message with {} attribute bytes (<= 65535) was rejected", total),
    }
}
''' % (length_pre, "Some(%d)" % value_size if value_size is not None else "None")
    tdir = os.path.join(src_root, "stun-rs", "tests")
    os.makedirs(tdir, exist_ok=True)
    path = os.path.join(tdir, "verif_replay_c14.rs")
    with open(path, "w") as f:
        f.write(test)
    outs = {}
    for prof, extra in (("dev", []), ("release", ["--release"])):
        env = dict(os.environ, CARGO_TARGET_DIR=tgt, CARGO_NET_OFFLINE="true")
        p = subprocess.run(["cargo", "test", "--offline", "-p", "stun-rs", "--features", "turn", "--test", "verif_replay_c14"] + extra,
                           cwd=src_root, env=env, stdout=subprocess.PIPE, stderr=subprocess.STDOUT, text=True)
        if "test result: FAILED" in p.stdout:
            msg = [l for l in p.stdout.splitlines() if "C14:" in l][:1]
            outs[prof] = "REPRODUCED: " + (msg[0].strip() if msg else "test failed")
        elif "test result: ok" in p.stdout:
            outs[prof] = "not reproduced"
        else:
            outs[prof] = "replay did not run: " + p.stdout[-200:]
    return test, outs


def run(scratch, verif):
    """returns (status, info dict, output lines). status: 'pass' | 'violation' | 'inconclusive'"""
    t0 = time.time()
    lines = []
    info = {"engine": "MIR (rustc nightly -Zunpretty=mir) -> SMT-LIB2 bit-vectors -> z3 4.8.12, sat answers cross-checked with cvc5 1.0",
            "function": "stun_rs::context::MessageEncoder::encode: one loop iteration + epilogue from an arbitrary accumulator value (multiple of 4, <= 65535)",
            "obligations": [], "havocked_calls": [], "modelled_calls": []}
    tgt = os.path.join(scratch.base, "tgt_mir")
    status = "pass"
    viol = []
    try:
        for mode in ("dev", "release"):
            mir = dump_mir(scratch.src, mode, os.path.join(scratch.base, "mir_%s.txt" % mode), tgt)
            e = Engine(mir, mode)
            res = e.run()
            info["havocked_calls"] = sorted(set(info["havocked_calls"]) | e.havocked)
            info["modelled_calls"] = sorted(set(info["modelled_calls"]) | e.modelled)
            info.setdefault("paths", {})[mode] = e.paths
            info.setdefault("limit_error_paths_reachable", {})[mode] = getattr(e, "limit_witness", 0)
            if getattr(e, "limit_witness", 0) == 0:
                status = "inconclusive"
                lines.append("INCONCLUSIVE mir2smt (%s): no reachable 16-bit limit error path was recognised (vacuity witness)" % mode)
            info.setdefault("solver_s", 0.0)
            info["solver_s"] = round(info["solver_s"] + e.s.time, 2)
            info.setdefault("queries", 0)
            info["queries"] += e.s.queries
            n_obl = 0
            for r in res:
                n_obl += 1
                rec = {"mode": mode, "obligation": r["obligation"], "path": r["path"], "result": r["result"]}
                if r["result"] == "sat":
                    m = r["model"] or {}
                    pre = m.get(e.acc_pre, 0)
                    vsz = None
                    for k, v in m.items():
                        if "_ok_" in k and k != e.acc_pre:
                            vsz = v if v < (1 << 20) else vsz
                    # cross-check the sat answer with cvc5
                    r2, _ = e.s.check(r["assertions"], binary="cvc5")
                    rec["cvc5"] = r2
                    rec["model"] = {"length_pre": pre, "value_size": vsz}
                    viol.append((mode, r["obligation"], pre, vsz))
                elif r["result"] != "unsat":
                    status = "inconclusive"
                    rec["detail"] = str(r.get("model"))[:200]
                info["obligations"].append(rec)
            if mode == "release" and not any(x["mode"] == "release" for x in info["obligations"]):
                # the release obligations hang on recognising the accumulator update; finding none means the MIR shape changed
                status = "inconclusive"
                lines.append("INCONCLUSIVE mir2smt: no release obligation was generated (accumulator update not recognised)")
        if viol:
            # replay the first distinct counterexamples natively before calling them violations
            seen = set()
            reproduced = []
            for (mode, what, pre, vsz) in viol:
                step = None if "returned size" in what or ("bb" in what and vsz is None) else vsz
                key = (pre, step)
                if key in seen or len(seen) >= 3:
                    continue
                seen.add(key)
                test, outs = native_replay(scratch.src, os.path.join(scratch.base, "tgt_replay"), pre, step)
                rp = os.path.join(os.environ.get("VERIF_REPLAY_DIR") or os.path.join(verif, "replays"), "c14_mir_%d_%s.replay.txt" % (pre, step))
                os.makedirs(os.path.dirname(rp), exist_ok=True)
                with open(rp, "w") as f:
                    f.write("engine: mir2smt (%s MIR)\nobligation: %s\nmodel: accumulator before the step = %d attribute bytes, next attribute value size = %s\n\nnative replay:\n  dev: %s\n  release: %s\n\ntest:\n%s" % (mode, what, pre, step, outs.get("dev"), outs.get("release"), test))
                info.setdefault("replays", []).append({"length_pre": pre, "value_size": step, "native": outs, "file": rp})
                if any(v.startswith("REPRODUCED") for v in outs.values()):
                    reproduced.append((rp, what, outs))
            if reproduced:
                status = "violation"
                for rp, what, outs in reproduced:
                    lines.append("VIOLATION property=C14 replay=%s" % rp)
                    lines.append("  mir2smt: %s  [dev: %s; release: %s]" % (what, outs.get("dev"), outs.get("release")))
            else:
                status = "inconclusive"
                lines.append("INCONCLUSIVE mir2smt: %d sat answer(s) did not reproduce natively (havocking over-approximates; see evidence)" % len(viol))
    except Exception as ex:  # translator does not understand the MIR: never a pass
        status = "inconclusive"
        lines.append("INCONCLUSIVE mir2smt: %r" % (ex,))
        info["error"] = repr(ex)
    info["wall_s"] = round(time.time() - t0, 1)
    info["status"] = status
    info["discharged"] = sum(1 for o in info["obligations"] if o["result"] == "unsat")
    return status, info, lines
