// Native differential check of the string stubs' contract (run by bin/setup in a scratch copy):
// on the alphabet the string harnesses draw from (printable ASCII without SP, '"' and '\'), PRECIS
// OpaqueString is the identity and the quoted-string grammar accepts the text unchanged — which is
// what `precis_ascii` / `qs_plain` implement.  All 1- and 2-character strings are tried through the
// public constructors and through the decoder.
use stun_rs::attributes::stun::{Nonce, Realm, UserName};
use stun_rs::{MessageClass, MessageDecoderBuilder, MessageEncoderBuilder, StunMessageBuilder};
use stun_rs::methods::BINDING;

fn plain() -> Vec<char> {
    (0x21u8..0x7f).filter(|c| *c != b'"' && *c != b'\\').map(|c| c as char).collect()
}

#[test]
fn stub_contract_on_plain_ascii() {
    let alpha = plain();
    let mut all: Vec<String> = alpha.iter().map(|c| c.to_string()).collect();
    for a in &alpha {
        for b in &alpha {
            all.push(format!("{}{}", a, b));
        }
    }
    for s in &all {
        let u = UserName::new(s).expect("UserName::new on plain ASCII");
        assert_eq!(u.as_str(), s, "PRECIS is the identity on plain ASCII");
        let r = Realm::new(s).expect("Realm::new on plain ASCII");
        assert_eq!(r.as_str(), s);
        let n = Nonce::new(s).expect("Nonce::new on plain ASCII");
        assert_eq!(n.as_str(), s);
    }
    // and through the decoder (enforce + grammar on the decoding side), one message per 2-char string
    let enc = MessageEncoderBuilder::default().build();
    let dec = MessageDecoderBuilder::default().build();
    for s in all.iter().step_by(7) {
        let msg = StunMessageBuilder::new(BINDING, MessageClass::Request)
            .with_attribute(UserName::new(s).unwrap())
            .with_attribute(Realm::new(s).unwrap())
            .with_attribute(Nonce::new(s).unwrap())
            .build();
        let mut buf = [0u8; 128];
        let n = enc.encode(&mut buf, &msg).expect("encode");
        let (m2, used) = dec.decode(&buf[..n]).expect("decode");
        assert_eq!(used, n);
        assert_eq!(m2.get::<UserName>().unwrap().expect_user_name().as_str(), s);
        assert_eq!(m2.get::<Realm>().unwrap().expect_realm().as_str(), s);
        assert_eq!(m2.get::<Nonce>().unwrap().expect_nonce().as_str(), s);
    }
    // the empty string and control characters are rejected by PRECIS (the stub's Err cases)
    assert!(UserName::new("").is_err());
    assert!(UserName::new("a\u{9}b").is_err());
}
