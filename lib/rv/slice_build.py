"""Assembles the agent-slice build (DESIGN §1.3) inside the scratch directory."""
import os
import re
import shutil


def assemble(scratch, verif):
    base = scratch.base
    sl = os.path.join(base, "agent-slice")
    shutil.rmtree(sl, ignore_errors=True)
    os.makedirs(os.path.join(sl, "src"))
    os.makedirs(os.path.join(sl, "real"))
    shim = os.path.join(base, "shim-stun-rs")
    shutil.rmtree(shim, ignore_errors=True)
    shutil.copytree(os.path.join(verif, "shim", "stun-rs"), shim)
    shutil.copy(os.path.join(verif, "slice", "Cargo.toml"), os.path.join(sl, "Cargo.toml"))
    shutil.copy(os.path.join(verif, "slice", "lib.rs"), os.path.join(sl, "src", "lib.rs"))
    shutil.copy(os.path.join(verif, "slice", "verif_map.rs"), os.path.join(sl, "src", "verif_map.rs"))
    shutil.copy(os.path.join(verif, "harness", "agent", "support_time.rs"), os.path.join(sl, "src", "support_time.rs"))
    agent_src = os.path.join(scratch.src, "stun-agent", "src")
    swapped = 0
    for f in ("client.rs", "timeout.rs", "rtt.rs", "events.rs"):
        txt = open(os.path.join(agent_src, f)).read()
        if f == "client.rs":
            txt, swapped = re.subn(r"use std::collections::HashMap;", "use crate::verif_map::VecMap as HashMap;", txt)
            txt += '\n#[cfg(kani)]\n#[path = "verif_client.rs"]\nmod verif_client;\n'
        if f == "events.rs":
            txt += '\n#[cfg(kani)]\n#[path = "verif_events.rs"]\npub(crate) mod verif_events;\n'
        with open(os.path.join(sl, "real", f), "w") as out:
            out.write(txt)
    shutil.copy(os.path.join(verif, "harness", "slice", "verif_client.rs"), os.path.join(sl, "real", "verif_client.rs"))
    shutil.copy(os.path.join(verif, "harness", "slice", "verif_events.rs"), os.path.join(sl, "real", "verif_events.rs"))
    from . import driver
    driver.write_cfg_rs(os.path.join(sl, "src", "verif_cfg.rs"))
    with open(os.path.join(sl, "src", "lib.rs"), "a") as f:
        f.write('\n#[path = "verif_cfg.rs"]\npub(crate) mod verif_cfg;\n')
    return {"hashmap_import_swapped": swapped, "real_files": ["client.rs", "timeout.rs", "rtt.rs", "events.rs"]}


def assemble_agentshim(scratch, verif):
    """The whole real stun-agent crate (working tree copy) against the stun-rs environment model."""
    base = scratch.base
    ag = os.path.join(base, "agent-shim")
    shutil.rmtree(ag, ignore_errors=True)
    os.makedirs(os.path.join(ag, "src"))
    shim = os.path.join(base, "shim-stun-rs")
    shutil.rmtree(shim, ignore_errors=True)
    shutil.copytree(os.path.join(verif, "shim", "stun-rs"), shim)
    with open(os.path.join(ag, "Cargo.toml"), "w") as f:
        f.write('[package]\nname = "stun-agent"\nversion = "0.0.0"\nedition = "2021"\n\n[dependencies]\nlog = "0.4.21"\nstun-rs = { path = "../shim-stun-rs", features = ["attrs"] }\n\n'
                '[lints.rust]\nunexpected_cfgs = { level = "allow", check-cfg = [\'cfg(kani)\'] }\n\n[workspace]\n')
    agent_src = os.path.join(scratch.src, "stun-agent", "src")
    swaps = 0
    for f in sorted(os.listdir(agent_src)):
        if not f.endswith(".rs"):
            continue
        txt = open(os.path.join(agent_src, f)).read()
        if f == "client.rs":
            txt, n = re.subn(r"use std::collections::HashMap;", "use crate::verif_map::VecMap as HashMap;", txt)
            swaps += n
        if f == "integrity.rs":
            txt, n = re.subn(r"use std::collections::HashSet;", "use crate::verif_map::VecSet as HashSet;", txt)
            swaps += n
        if f == "lib.rs":
            txt += '\nmod verif_map;\n'
        with open(os.path.join(ag, "src", f), "w") as out:
            out.write(txt)
    shutil.copy(os.path.join(verif, "slice", "verif_map.rs"), os.path.join(ag, "src", "verif_map.rs"))
    # non-kani builds (cargo check of the scratch copy) still need the std containers
    return {"container_import_swaps": swaps}
