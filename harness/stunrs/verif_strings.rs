// Child module of strings.rs: lets other harness modules build a QuotedString without running the
// pest grammar.  Sound only for strings on which `formatted_quoted_string_from` is the identity
// (no leading/trailing SP/HTAB/CR/LF/DQUOTE) and under the `qs_any` reading "every string may be
// accepted by the grammar"; counterexamples are replayed through the real constructor.
#![allow(dead_code)]
use super::*;

pub(crate) fn quoted_unchecked(s: String) -> QuotedString {
    QuotedString(s)
}
