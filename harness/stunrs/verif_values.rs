// C19: value types never panic, clones are independent.  Crate-level child module (pub(crate) access).
#![allow(unused_imports, dead_code)]
use crate::attributes::stun::{Nonce, PasswordAlgorithm, PasswordAlgorithms, UnknownAttributes};
use crate::support_common::*;
use crate::*;
use std::convert::TryFrom;

// ------------------------------------------------------------------ message.rs / types.rs / algorithm.rs
#[kani::proof]
#[kani::unwind(4)]
#[kani::stub(alloc::fmt::format, nofmt)]
fn c19_message_types_total() {
    let v: u16 = kani::any();
    // conversions from any u16 / u8 never panic
    let mt = MessageType::from(v);
    let _ = mt.as_u16();
    let _ = mt.class();
    let m = mt.method();
    assert!(m.as_u16() <= 0x0FFF);
    let _ = m.is_valid();
    let r = MessageMethod::try_from(v);
    assert!(r.is_ok() == (v <= 0x0FFF));
    let b: u8 = kani::any();
    let c = MessageClass::try_from(b);
    assert!(c.is_ok() == (b <= 3));
    let two = [kani::any::<u8>(), kani::any::<u8>()];
    let mt2 = MessageType::from(&two);
    let mut out = [0u8; 2];
    let n: usize = kani::any();
    kani::assume(n <= 2);
    let e = mt2.encode(&mut out[..n]);
    assert!(e.is_ok() == (n == 2));
    let at = AttributeType::from(v);
    assert!(at.as_u16() == v);
    assert!(at.is_comprehension_required() == (v < 0x8000));
    assert!(at.is_comprehension_optional() == (v >= 0x8000));
    let a = AlgorithmId::from(v);
    assert!(u16::from(a) == v);
    let fam = AddressFamily::try_from(b);
    assert!(fam.is_ok() == (b == 1 || b == 2));
    std::mem::forget(r);
    std::mem::forget(c);
    std::mem::forget(e);
    std::mem::forget(fam);
}

#[kani::proof]
#[kani::unwind(6)]
#[kani::stub(alloc::fmt::format, nofmt)]
fn c19_error_code_total() {
    let code: u16 = kani::any();
    let r = ErrorCode::new(code, "abc");
    match &r {
        Ok(e) => {
            assert!(code >= 300 && code <= 699);
            assert!(e.error_code() == code);
            // accessors must not panic and must split class/number per RFC 8489 §14.8
            assert!(e.class() as u16 == code / 100);
            assert!(e.number() as u16 == code % 100);
            assert!(e.reason().len() == 3);
        }
        Err(_) => assert!(code < 300 || code > 699),
    }
    kani::cover!(r.is_ok());
    std::mem::forget(r);
}

// ------------------------------------------------------------------ clone independence (Arc-backed values)
fn pa(id: u16) -> PasswordAlgorithm {
    PasswordAlgorithm::new(Algorithm::from(AlgorithmId::from(id)))
}

// PRE: the original already holds one algorithm; WHICH: the copy that is mutated (true = original)
fn c19_password_algorithms_clone<const PRE: bool, const WHICH: bool>() {
    let mut a = PasswordAlgorithms::default();
    let first: u16 = kani::any();
    if PRE {
        a.add(pa(first));
    }
    let n0 = a.password_algorithms().len();
    let mut b = a.clone();
    let x: u16 = kani::any();
    if WHICH {
        a.add(pa(x));
        assert!(a.password_algorithms().len() == n0 + 1, "C19: add on a cloned value works");
        assert!(b.password_algorithms().len() == n0, "C19: the clone is unaffected");
    } else {
        b.add(pa(x));
        assert!(b.password_algorithms().len() == n0 + 1, "C19: add on the clone works");
        assert!(a.password_algorithms().len() == n0, "C19: the original is unaffected");
    }
    if PRE {
        assert!(u16::from(a.password_algorithms()[0].algorithm()) == first);
        assert!(u16::from(b.password_algorithms()[0].algorithm()) == first);
    }
    std::mem::forget(a);
    std::mem::forget(b);
}
macro_rules! pac_inst {
    ($($name:ident = ($p:expr, $w:expr);)*) => {$(
        #[kani::proof]
        #[kani::unwind(4)]
        #[kani::stub(alloc::fmt::format, nofmt)]
        fn $name() { c19_password_algorithms_clone::<$p, $w>(); }
    )*};
}
pac_inst! {
    c19_password_algorithms_clone_empty_orig = (false, true);
    c19_password_algorithms_clone_empty_copy = (false, false);
    c19_password_algorithms_clone_one_orig = (true, true);
    c19_password_algorithms_clone_one_copy = (true, false);
}

// the consuming conversion on a value whose clone is still alive (shared storage)
fn c19_password_algorithms_into_iter_shared<const PRE: bool>() {
    let first: u16 = kani::any();
    let a = if PRE { PasswordAlgorithms::from(vec![pa(first)]) } else { PasswordAlgorithms::default() };
    let n0 = if PRE { 1 } else { 0 };
    let b = a.clone();
    let which: bool = kani::any();
    let (consumed, kept) = if which { (a, b) } else { (b, a) };
    let mut it = consumed.into_iter();
    let mut n = 0usize;
    while let Some(x) = it.next() {
        assert!(u16::from(x.algorithm()) == first);
        n += 1;
        std::mem::forget(x);
    }
    assert!(n == n0, "C19: into_iter of a shared value yields the list");
    assert!(kept.password_algorithms().len() == n0, "C19: the other copy is unaffected");
    std::mem::forget(it);
    std::mem::forget(kept);
}
#[kani::proof]
#[kani::unwind(4)]
#[kani::stub(alloc::fmt::format, nofmt)]
fn c19_password_algorithms_into_iter_shared_empty() {
    c19_password_algorithms_into_iter_shared::<false>();
}
#[kani::proof]
#[kani::unwind(4)]
#[kani::stub(alloc::fmt::format, nofmt)]
fn c19_password_algorithms_into_iter_shared_one() {
    c19_password_algorithms_into_iter_shared::<true>();
}

#[kani::proof]
#[kani::unwind(5)]
#[kani::stub(alloc::fmt::format, nofmt)]
fn c19_unknown_attributes_clone_mutate() {
    let mut a = UnknownAttributes::default();
    let first: u16 = kani::any();
    a.add(first);
    let mut b = a.clone();
    let which: bool = kani::any();
    let x: u16 = kani::any();
    if which {
        a.add(x);
        assert!(b.attributes().len() == 1 && b.attributes()[0] == first);
        assert!(a.attributes().len() == if x == first { 1 } else { 2 });
    } else {
        b.add(x);
        assert!(a.attributes().len() == 1 && a.attributes()[0] == first);
        assert!(b.attributes().len() == if x == first { 1 } else { 2 });
    }
    kani::cover!(which && x != first);
    std::mem::forget(a);
    std::mem::forget(b);
}


// ------------------------------------------------------------------ more constructors / accessors
#[kani::proof]
#[kani::unwind(6)]
#[kani::stub(alloc::fmt::format, nofmt)]
fn c19_algorithm_values() {
    let v: u16 = kani::any();
    let id = AlgorithmId::from(v);
    let p: [u8; 3] = kani::any();
    let n: usize = kani::any();
    kani::assume(n <= 3);
    let a = if n == 0 { Algorithm::from(id) } else { Algorithm::new(id, &p[..n]) };
    assert!(u16::from(a.algorithm()) == v);
    match a.parameters() {
        None => assert!(n == 0),
        Some(x) => assert!(x.len() == n && n > 0 && x[0] == p[0]),
    }
    // clone independence: the parameters of a clone are the same bytes, the original is unaffected by dropping the clone
    let b = a.clone();
    assert!(b == a);
    drop(b);
    assert!(a.parameters().map_or(0, |x| x.len()) == n);
    let pa = PasswordAlgorithm::new(a.clone());
    assert!(u16::from(pa.algorithm()) == v && pa.parameters().map_or(0, |x| x.len()) == n);
    std::mem::forget(pa);
    std::mem::forget(a);
}

#[kani::proof]
#[kani::unwind(14)]
#[kani::stub(alloc::fmt::format, nofmt)]
fn c19_transaction_id_and_cookie() {
    let b: [u8; 12] = kani::any();
    let t = TransactionId::from(b);
    let j: usize = kani::any();
    kani::assume(j < 12);
    assert!(t.as_bytes()[j] == b[j]);
    let r: &[u8] = t.as_ref();
    assert!(r.len() == 12 && r[j] == b[j]);
    let t2 = TransactionId::from(&b);
    assert!(t == t2);
    let c: [u8; 4] = kani::any();
    let is_cookie = c == [0x21, 0x12, 0xa4, 0x42];
    assert!((MAGIC_COOKIE == c) == is_cookie);
    assert!((c == MAGIC_COOKIE) == is_cookie);
    assert!(MAGIC_COOKIE.as_u32() == 0x2112_a442);
}

#[kani::proof]
#[kani::unwind(6)]
#[kani::stub(alloc::fmt::format, nofmt)]
#[kani::stub(<crate::types::TransactionId as std::default::Default>::default, tid_any)]
fn c19_message_builder_accessors() {
    use crate::attributes::stun::Fingerprint;
    let m: u16 = kani::any();
    kani::assume(m <= 0x0fff);
    let method = match MessageMethod::try_from(m) {
        Ok(x) => x,
        Err(_) => return,
    };
    let tid: [u8; 12] = kani::any();
    let with_fp: bool = kani::any();
    let mut b = StunMessageBuilder::new(method, MessageClass::Indication).with_transaction_id(TransactionId::from(tid));
    if with_fp {
        b = b.with_attribute(Fingerprint::default());
    }
    let msg = b.build();
    assert!(msg.method().as_u16() == m && msg.class() == MessageClass::Indication);
    assert!(msg.attributes().len() == with_fp as usize);
    assert!(msg.get::<Fingerprint>().is_some() == with_fp);
    assert!(msg.get::<crate::attributes::stun::Software>().is_none());
    if with_fp {
        let a = &msg.attributes()[0];
        assert!(a.is_fingerprint() && !a.is_software());
        assert!(a.as_fingerprint().is_ok() && a.as_software().is_err(), "C19: as_* reports a mismatch through a Result");
    }
    std::mem::forget(msg);
}

// C18 (unit level): the value the decoder stores for an unknown attribute.  Unknown::new with the raw
// value keeps exactly those bytes, with None keeps nothing; the type code is kept either way.  (The
// whole-decoder query with a stored unknown value runs out of memory; the decoder's choice between the
// two is the expression `ctx.with_unknown_data().then_some(raw_attr.value)`, whose None side is
// decided by c18c_*.)
fn c18_unknown_new<const L: usize>() {
    use crate::attributes::Unknown;
    let code: u16 = kani::any();
    let data: [u8; L] = kani::any();
    let with: bool = kani::any();
    let u = if with { Unknown::new(crate::AttributeType::from(code), Some(&data[..])) } else { Unknown::new(crate::AttributeType::from(code), None) };
    assert!(u.attribute_type().as_u16() == code);
    match u.attribute_data() {
        None => assert!(!with, "C18: with_unknown_data keeps the raw value"),
        Some(d) => {
            assert!(with, "C18: raw data only when asked for");
            assert!(d.len() == L, "C18: exactly the raw value bytes");
            if L > 0 {
                let j: usize = kani::any();
                kani::assume(j < L);
                assert!(d[j] == data[j], "C18: exactly the raw value bytes");
            }
        }
    }
    let c = u.clone();
    assert!(c == u);
    std::mem::forget(c);
    std::mem::forget(u);
}
macro_rules! c18u_inst {
    ($($name:ident = $l:expr;)*) => {$(
        #[kani::proof]
        #[kani::unwind(10)]
        #[kani::stub(alloc::fmt::format, nofmt)]
        fn $name() { c18_unknown_new::<$l>(); }
    )*};
}
c18u_inst! {
    c18_unknown_new_l0 = 0;
    c18_unknown_new_l4 = 4;
    c18_unknown_new_l7 = 7;
}
