use super::*;

#[kani::proof]
fn probe_rtt_first_sample() {
    let g_us: u32 = kani::any(); kani::assume(g_us >= 1 && g_us <= 100_000);
    let r_us: u32 = kani::any(); kani::assume(r_us >= 1 && r_us <= 60_000_000);
    let mut c = RttCalcuator::new(Duration::from_millis(500), Duration::from_micros(g_us as u64));
    c.update(Duration::from_micros(r_us as u64));
    let r = Duration::from_micros(r_us as u64);
    let exp = r + std::cmp::max(Duration::from_micros(g_us as u64), (r / 2) * 4);
    assert!(c.rto() == exp);
}

#[kani::proof]
fn probe_rtt_second_sample() {
    let r1_ms: u32 = kani::any(); kani::assume(r1_ms >= 1 && r1_ms <= 4_000);
    let r2_ms: u32 = kani::any(); kani::assume(r2_ms >= 1 && r2_ms <= 4_000);
    let mut c = RttCalcuator::new(Duration::from_millis(500), Duration::from_millis(1));
    c.update(Duration::from_millis(r1_ms as u64));
    c.update(Duration::from_millis(r2_ms as u64));
    // reference in integer nanoseconds
    let s1 = r1_ms as i128 * 1_000_000; let v1 = s1 / 2; let r2 = r2_ms as i128 * 1_000_000;
    let v2 = (3 * v1 + (s1 - r2).abs()) / 4;
    let s2 = (7 * s1 + r2) / 8;
    let exp = s2 + std::cmp::max(1_000_000, 4 * v2);
    let got = c.rto().as_nanos() as i128;
    let tol = exp / 100_000 + 1_000;
    assert!((got - exp).abs() <= tol);
}

#[kani::proof]
fn probe_mul_f32_kernel() {
    let ns: u64 = kani::any(); kani::assume(ns <= 60_000_000_000);
    let d = Duration::from_nanos(ns);
    let got = d.mul_f32(0.125).as_nanos() as i128;
    let exp = (ns / 8) as i128;
    let tol = exp / 1_000_000 + 100 ; // f32 has 24 bits: rel 6e-8.. use 1e-6 + 100ns
    assert!((got - exp).abs() <= tol + exp/100_000);
}
