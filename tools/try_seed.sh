#!/bin/bash
# try_seed.sh <seed-id> <property> [check args...] : runs a check against a scratch worktree of /repo with the seeded patch applied
S=$1; P=$2; shift 2
W=/tmp/mut-$S-$P
git -C /repo worktree remove --force $W 2>/dev/null
git -C /repo worktree add -q --detach $W HEAD || exit 3
git -C $W apply /verif/seeded/$S/patch.diff || { echo "patch does not apply"; git -C /repo worktree remove --force $W; exit 3; }
VERIF_REPO=$W VERIF_SCRATCH=/var/tmp/rv-mut-$S-$P VERIF_EVIDENCE_DIR=/tmp/ev-mut VERIF_REPLAY_DIR=/tmp/ev-mut/replays /verif/bin/check $P "$@"
rc=$?
git -C /repo worktree remove --force $W
rm -rf /var/tmp/rv-mut-$S-$P
echo "seed=$S prop=$P exit=$rc"
exit $rc
