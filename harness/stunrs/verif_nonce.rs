// C19/C03: nonce-cookie accessors on server-chosen text.  Child module of attributes/stun/nonce.rs.
//
// The text is assembled structurally (DESIGN C03): "obMatJos2" + K printable ASCII bytes + a
// non-ASCII sequence exactly as the real grammar admits it + "xyz".  It is handed to
// the accessors as a Nonce built without running the pest grammar (the grammar is over-approximated:
// any such string may be a nonce).  A counterexample is replayed natively through the real
// `Nonce::new` (see /verif/lib/rv/native.py) before it is reported.
#![allow(dead_code, unused_imports)]
use super::*;
use crate::support_common::*;

fn nonce_from_bytes(v: Vec<u8>) -> Option<Nonce> {
    let s = unsafe { String::from_utf8_unchecked(v) };
    if crate::verif_cfg::NATIVE_REPLAY {
        // native replay of a counterexample: the text goes through the real constructor and the
        // real pest grammar; a text the grammar rejects is not an input the accessor can see
        return Nonce::new(s.as_str()).ok();
    }
    Some(Nonce(crate::strings::verif_strings::quoted_unchecked(s)))
}

fn ascii_qd() -> u8 {
    let c: u8 = kani::any();
    kani::assume(c >= 0x21 && c < 0x7f && c != b'"' && c != b'\\');
    c
}

// non-ASCII per the real grammar (quoted-string-parser, char based): utf8_nonascii =
// U+00C0..DF followed by one U+0080..BF | U+00E0..EF followed by two U+0080..BF | ...; every one
// of these chars is two bytes in UTF-8.  K ASCII chars, then a lead char for C continuation
// chars, then the C continuation chars, then "xyz".  N = 9 + K + 2 + 2*C + 3.
fn c19_nonce_cookie_u<const K: usize, const C: usize, const N: usize>() {
    let mut b = [0u8; N];
    b[..9].copy_from_slice(b"obMatJos2");
    let mut i = 0;
    while i < K {
        b[9 + i] = ascii_qd();
        i += 1;
    }
    let lead: u8 = kani::any();
    if C == 1 {
        kani::assume(lead >= 0x80 && lead <= 0x9f); // C3 80..9F = U+00C0..U+00DF
    } else {
        kani::assume(lead >= 0xa0 && lead <= 0xaf); // C3 A0..AF = U+00E0..U+00EF
    }
    b[9 + K] = 0xc3;
    b[9 + K + 1] = lead;
    let mut c = 0;
    while c < C {
        let cont: u8 = kani::any();
        kani::assume(cont >= 0x80 && cont <= 0xbf); // C2 80..BF = U+0080..U+00BF
        b[9 + K + 2 + 2 * c] = 0xc2;
        b[9 + K + 3 + 2 * c] = cont;
        c += 1;
    }
    b[N - 3] = b'x';
    b[N - 2] = b'y';
    b[N - 1] = b'z';
    let nonce = match nonce_from_bytes(b.to_vec()) {
        Some(n) => n,
        None => return,
    };
    let is = nonce.is_nonce_cookie();
    let f = nonce.security_features();
    assert!(is || f.is_err());
    kani::cover!(is);
    std::mem::forget(f);
    std::mem::forget(nonce);
}

// all-ASCII flags: the four flag characters are arbitrary printable ASCII, incl. non-base64
fn c19_nonce_cookie_ascii<const K: usize, const N: usize>() {
    let mut b = [0u8; N];
    b[..9].copy_from_slice(b"obMatJos2");
    let mut i = 0;
    while i < K {
        b[9 + i] = ascii_qd();
        i += 1;
    }
    let nonce = match nonce_from_bytes(b.to_vec()) {
        Some(n) => n,
        None => return,
    };
    let is = nonce.is_nonce_cookie();
    assert!(is == (K >= 4));
    let f = nonce.security_features();
    assert!(is || f.is_err());
    kani::cover!(f.is_ok());
    kani::cover!(is && f.is_err());
    std::mem::forget(f);
    std::mem::forget(nonce);
}

macro_rules! inst {
    ($($name:ident = $f:ident($($a:expr),*);)*) => {$(
        #[kani::proof]
        #[kani::unwind(11)]
        #[kani::stub(alloc::fmt::format, nofmt)]
        fn $name() { $f::<$($a),*>(); }
    )*};
}
inst! {
    c19_nonce_cookie_k0_c1 = c19_nonce_cookie_u(0, 1, 16);
    c19_nonce_cookie_k1_c1 = c19_nonce_cookie_u(1, 1, 17);
    c19_nonce_cookie_k2_c1 = c19_nonce_cookie_u(2, 1, 18);
    c19_nonce_cookie_k3_c1 = c19_nonce_cookie_u(3, 1, 19);
    c19_nonce_cookie_k4_c1 = c19_nonce_cookie_u(4, 1, 20);
    c19_nonce_cookie_k0_c2 = c19_nonce_cookie_u(0, 2, 18);
    c19_nonce_cookie_k1_c2 = c19_nonce_cookie_u(1, 2, 19);
    c19_nonce_cookie_ascii_k3 = c19_nonce_cookie_ascii(3, 12);
    c19_nonce_cookie_ascii_k4 = c19_nonce_cookie_ascii(4, 13);
    c19_nonce_cookie_ascii_k6 = c19_nonce_cookie_ascii(6, 15);
}
