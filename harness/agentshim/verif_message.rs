// Child module of the real message.rs.
#![allow(dead_code)]
use super::*;

/// An empty attribute list whose backing Vec already has room for `n` attributes.  Capacity is not
/// observable; it only keeps Vec::push from reallocating under the solver (CBMC's realloc of a heap
/// object with symbolic contents is what exhausted 27 GB in the 6-attribute probes).
pub(crate) fn attributes_with_capacity(n: usize) -> StunAttributes {
    StunAttributes { attributes: Vec::with_capacity(n), integrity: None, integrity_sha256: None, fingerprint: None }
}

// C13 (unit level): the application's attribute list — one entry per type, in FIRST-insertion order,
// holding the value added last; integrity / fingerprint attributes are kept aside and come last in the
// order MI, SHA256, FINGERPRINT.  The kinds of the three additions are concrete per instance (values
// symbolic); patterns with a type added twice, adjacent and not adjacent.
fn other(code: u16) -> StunAttribute {
    StunAttribute::Other(stun_rs::attrs_model::Other { code, val: kani::any() })
}
fn c13_add_order<const K0: u16, const K1: u16, const K2: u16>() {
    let mut l = attributes_with_capacity(8);
    let a = [other(K0), other(K1), other(K2)];
    l.add(a[0]);
    l.add(a[1]);
    l.add(a[2]);
    let with_fp: bool = kani::any();
    if with_fp {
        l.add(StunAttribute::Fingerprint(stun_rs::attrs_model::Fingerprint::Encodable));
    }
    let out: Vec<StunAttribute> = l.into();
    // reference
    let ks = [K0, K1, K2];
    let mut want = [a[0]; 3];
    let mut wk = [0u16; 3];
    let mut n = 0usize;
    let mut i = 0;
    while i < 3 {
        let mut found = false;
        let mut k = 0;
        while k < n {
            if wk[k] == ks[i] {
                want[k] = a[i];
                found = true;
            }
            k += 1;
        }
        if !found {
            want[n] = a[i];
            wk[n] = ks[i];
            n += 1;
        }
        i += 1;
    }
    assert!(out.len() == n + with_fp as usize, "C13: one entry per type");
    let mut k = 0;
    while k < 3 {
        if k < n {
            assert!(out[k] == want[k], "C13: application attributes in first-insertion order, holding the last value added for their type");
        }
        k += 1;
    }
    if with_fp {
        assert!(matches!(out[n], StunAttribute::Fingerprint(_)), "C13: FINGERPRINT last");
    }
    std::mem::forget(out);
}
macro_rules! add_inst {
    ($($name:ident = ($a:expr, $b:expr, $c:expr);)*) => {$(
        #[kani::proof]
        #[kani::unwind(6)]
        fn $name() { c13_add_order::<$a, $b, $c>(); }
    )*};
}
add_inst! {
    c13_add_order_aba = (0x8022, 0x0024, 0x8022);
    c13_add_order_aab = (0x8022, 0x8022, 0x0024);
    c13_add_order_abb = (0x8022, 0x0024, 0x0024);
    c13_add_order_abc = (0x8022, 0x0024, 0x0025);
    c13_add_order_aaa = (0x8022, 0x8022, 0x8022);
}
