// Child module of the real message.rs.
#![allow(dead_code)]
use super::*;

/// An empty attribute list whose backing Vec already has room for `n` attributes.  Capacity is not
/// observable; it only keeps Vec::push from reallocating under the solver (CBMC's realloc of a heap
/// object with symbolic contents is what exhausted 27 GB in the 6-attribute probes).
pub(crate) fn attributes_with_capacity(n: usize) -> StunAttributes {
    StunAttributes { attributes: Vec::with_capacity(n), integrity: None, integrity_sha256: None, fingerprint: None }
}
