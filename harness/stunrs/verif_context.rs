// Harnesses anchored in stun-rs/src/context.rs (child module: private items are reachable).
#![allow(unused_imports, dead_code)]
use super::*;
use crate::support_common::*;

// ---------------------------------------------------------------------------------------------
// C09 kernel: the ordering filter against the rule as stated in the property.
// Reference is written from RFC 8489 §14.5/§14.6/§14.7 with the IANA numbers as literals.
// ---------------------------------------------------------------------------------------------
const T_MI: u16 = 0x0008;
const T_SHA: u16 = 0x001C;
const T_FP: u16 = 0x8028;

fn c09_rule_seq<const N: usize>() {
    let n: usize = kani::any();
    kani::assume(n <= N);
    let types: [u16; N] = kani::any();
    let mut f = AttributeFilter::default();
    let (mut seen_mi, mut seen_sha, mut seen_fp) = (false, false, false);
    let mut admitted_n = 0usize;
    let mut i = 0;
    while i < n {
        let t = types[i];
        let ignored = ignore_attribute(&mut f, AttributeType::from(t));
        let admitted = if t == T_MI {
            !(seen_mi || seen_sha || seen_fp)
        } else if t == T_SHA {
            !(seen_sha || seen_fp)
        } else if t == T_FP {
            !seen_fp
        } else {
            !(seen_mi || seen_sha || seen_fp)
        };
        if t == T_MI {
            seen_mi = true;
        } else if t == T_SHA {
            seen_sha = true;
        } else if t == T_FP {
            seen_fp = true;
        }
        assert!(ignored == !admitted, "C09: filter verdict differs from the RFC ordering rule");
        if admitted {
            admitted_n += 1;
        }
        i += 1;
    }
    kani::cover!(n == N && seen_mi && seen_sha && seen_fp && admitted_n >= 3);
    kani::cover!(n >= 2 && admitted_n < n);
}

#[kani::proof]
#[kani::unwind(10)]
fn c09_rule_seq8() {
    c09_rule_seq::<8>();
}

#[kani::proof]
#[kani::unwind(14)]
fn c09_rule_seq12() {
    c09_rule_seq::<12>();
}

// type codes of the three special kinds are the IANA numbers the reference uses
#[kani::proof]
fn c09_type_codes() {
    assert!(MessageIntegrity::get_type().as_u16() == T_MI);
    assert!(MessageIntegritySha256::get_type().as_u16() == T_SHA);
    assert!(Fingerprint::get_type().as_u16() == T_FP);
}

// =============================================================================================
// C18 / C09 / C03 at message level: the real MessageDecoder::decode on a buffer with a fixed
// slot layout and symbolic contents.
//   layout (68 bytes): header | slot0 (8) | block (24) | slot1 (8) | slot2 (8)
//   slot  = type in S = {FINGERPRINT 0x8028, PRIORITY 0x0024, unknown 0x7F02, unknown 0xFF03},
//           length 4, 4 symbolic value bytes
//   block = type in {MESSAGE-INTEGRITY 0x0008 (length 20), unknown 0x7F04 (length 20)}
// The registry is the 4-kind restriction of the generated one (agreement on S asserted below).
// =============================================================================================
use crate::attributes::{AttributeType as AT, DecodeAttributeValue};
use crate::registry::DecoderHandler;

fn h_mi(ctx: AttributeDecoderContext) -> Result<(StunAttribute, usize), StunError> {
    let (v, s) = <MessageIntegrity as DecodeAttributeValue>::decode(ctx)?;
    Ok((v.into(), s))
}
fn h_sha(ctx: AttributeDecoderContext) -> Result<(StunAttribute, usize), StunError> {
    let (v, s) = <MessageIntegritySha256 as DecodeAttributeValue>::decode(ctx)?;
    Ok((v.into(), s))
}
fn h_fp(ctx: AttributeDecoderContext) -> Result<(StunAttribute, usize), StunError> {
    let (v, s) = <Fingerprint as DecodeAttributeValue>::decode(ctx)?;
    Ok((v.into(), s))
}
fn h_prio(ctx: AttributeDecoderContext) -> Result<(StunAttribute, usize), StunError> {
    let (v, s) = <crate::attributes::ice::Priority as DecodeAttributeValue>::decode(ctx)?;
    Ok((v.into(), s))
}
static H_MI: DecoderHandler = h_mi;
static H_SHA: DecoderHandler = h_sha;
static H_FP: DecoderHandler = h_fp;
static H_PRIO: DecoderHandler = h_prio;
fn registry_small(t: AT) -> Option<&'static DecoderHandler> {
    match t.as_u16() {
        0x0008 => Some(&H_MI),
        0x001c => Some(&H_SHA),
        0x8028 => Some(&H_FP),
        0x0024 => Some(&H_PRIO),
        _ => None,
    }
}

#[kani::proof]
#[kani::unwind(42)]
fn c18_registry_small_agrees() {
    use crate::verif_registry::registry_from_source;
    for t in [0x0008u16, 0x001c, 0x8028, 0x0024] {
        assert!(registry_from_source(AT::from(t)).is_some(), "kind registered in the working tree");
    }
    for t in [0x7f02u16, 0xff03, 0x7f04] {
        assert!(registry_from_source(AT::from(t)).is_none(), "unknown code really is unknown");
    }
}

const L: usize = 68;
struct Wire {
    buf: [u8; L],
    types: [u16; 4], // wire order: slot0, block, slot1, slot2
}
fn slot_type() -> u16 {
    let k: u8 = kani::any();
    kani::assume(k < 4);
    match k {
        0 => 0x8028,
        1 => 0x0024,
        2 => 0x7f02,
        _ => 0xff03,
    }
}
fn any_wire() -> Wire {
    let mut buf: [u8; L] = kani::any();
    put_header(&mut buf, (L - 20) as u16);
    let block_t: u16 = if kani::any() { 0x0008 } else { 0x7f04 };
    let types = [slot_type(), block_t, slot_type(), slot_type()];
    let offs = [20usize, 28, 52, 60];
    let lens = [4u8, 20, 4, 4];
    let mut i = 0;
    while i < 4 {
        buf[offs[i]] = (types[i] >> 8) as u8;
        buf[offs[i] + 1] = types[i] as u8;
        buf[offs[i] + 2] = 0;
        buf[offs[i] + 3] = lens[i];
        i += 1;
    }
    Wire { buf, types }
}
fn kind(t: u16) -> u8 {
    if t == T_MI { 1 } else if t == T_SHA { 2 } else if t == T_FP { 3 } else { 0 }
}
/// C09 rule on the four wire attributes: which are admitted
fn admitted(types: &[u16; 4]) -> [bool; 4] {
    let (mut mi, mut sha, mut fp) = (false, false, false);
    let mut out = [false; 4];
    let mut i = 0;
    while i < 4 {
        let k = kind(types[i]);
        out[i] = match k {
            1 => !(mi || sha || fp),
            2 => !(sha || fp),
            3 => !fp,
            _ => !(mi || sha || fp),
        };
        match k {
            1 => mi = true,
            2 => sha = true,
            3 => fp = true,
            _ => {}
        }
        i += 1;
    }
    out
}

/// OPT bits: 1 = context present, 2 = not_ignore, 4 = with_unknown_data
fn mk_decoder<const OPT: u8>() -> MessageDecoder {
    if OPT & 1 == 0 {
        return MessageDecoderBuilder::default().build();
    }
    let mut b = DecoderContextBuilder::default();
    if OPT & 2 != 0 {
        b = b.not_ignore();
    }
    if OPT & 4 != 0 {
        b = b.with_unknown_data();
    }
    MessageDecoderBuilder::default().with_context(b.build()).build()
}

fn c18_decode_opt<const OPT: u8>() {
    let w = any_wire();
    let dec = mk_decoder::<OPT>();
    let r = dec.decode(&w.buf);
    let adm = if OPT & 2 != 0 { [true; 4] } else { admitted(&w.types) };
    match &r {
        Ok((m, size)) => {
            assert!(*size == L, "C03: size = 20 + length field");
            let mut want = 0usize;
            let mut i = 0;
            while i < 4 {
                if adm[i] {
                    want += 1;
                }
                i += 1;
            }
            assert!(m.attributes().len() == want, "C09/C18: exactly the admitted wire attributes are returned (all of them with not_ignore; same without a context as with the default context)");
            // order and kinds: the j-th returned attribute is the j-th admitted wire attribute
            let mut j = 0usize;
            let mut i = 0;
            while i < 4 {
                if adm[i] {
                    let a = &m.attributes()[j];
                    assert!(a.attribute_type().as_u16() == w.types[i], "C09/C18: wire order preserved");
                    if let StunAttribute::Unknown(u) = a {
                        let off = [24usize, 32, 56, 64][i];
                        match u.attribute_data() {
                            Some(d) => {
                                assert!(OPT & 4 != 0, "C18: raw data only when asked for");
                                assert!(d.len() == if i == 1 { 20 } else { 4 } && d[0] == w.buf[off] && d[3] == w.buf[off + 3], "C18: exactly the raw value bytes");
                            }
                            None => assert!(OPT & 4 == 0, "C18: with_unknown_data keeps the raw value bytes"),
                        }
                    }
                    j += 1;
                }
                i += 1;
            }
        }
        Err(_) => assert!(false, "C03/C18: a well-formed message decodes under every option set (no validation requested)"),
    }
    kani::cover!(adm[3] && !adm[2]);
    kani::cover!(!adm[1]);
    std::mem::forget(r);
    std::mem::forget(dec);
}

macro_rules! c18_inst {
    ($($name:ident = $o:expr;)*) => {$(
        #[kani::proof]
        #[kani::unwind(14)]
        #[kani::stub(alloc::fmt::format, nofmt)]
        #[kani::stub(<crate::types::TransactionId as std::default::Default>::default, tid_any)]
        #[kani::stub(crate::registry::get_handler, registry_small)]
        fn $name() { c18_decode_opt::<$o>(); }
    )*};
}
c18_inst! {
    c18_decode_noctx = 0;
    c18_decode_default_ctx = 1;
    c18_decode_not_ignore = 3;
    c18_decode_unknown_data = 5;
    c18_decode_not_ignore_unknown_data = 7;
}
