"""Property table: which solver queries decide which property (DESIGN §3)."""
from .driver import Harness as H

NOFMT = "alloc::fmt::format -> nofmt (error texts outside the claim)"

PROPS = {}
META = {}


def prop(pid, harnesses, outside="", assumptions=()):
    PROPS[pid] = harnesses
    META[pid] = {"outside": outside, "assumptions": list(assumptions)}


CTX = "context::verif_context::"

prop("C09", [
    H("stunrs", CTX + "c09_type_codes", timeout=120, mem_gb=2, covers=0,
      bounds="constants", funcs=["MessageIntegrity::get_type", "MessageIntegritySha256::get_type", "Fingerprint::get_type"],
      sample="type codes 0x0008 / 0x001C / 0x8028"),
    H("stunrs", CTX + "c09_rule_seq8", timeout=300, mem_gb=4, covers=2,
      bounds="all sequences of <= 8 attribute type codes, each an arbitrary u16 (65536^8 sequences incl. all 87,380 kind sequences)",
      funcs=["context::ignore_attribute", "context::AttributeFilter"],
      sample="types=[0x0006,0x0008,0x001C,0x8028,0x8028,0x8022,0x0008,0x001C] -> admitted 1,1,1,1,0,0,0,0"),
    H("stunrs", CTX + "c09_rule_seq12", tier="thorough", timeout=900, mem_gb=6, covers=2,
      bounds="all sequences of <= 12 attribute type codes, each an arbitrary u16",
      funcs=["context::ignore_attribute", "context::AttributeFilter"]),
], outside="sequences longer than 12 attributes")

# ---------------------------------------------------------------------------------------------
# MANIFEST texts
# ---------------------------------------------------------------------------------------------
DESCR = {
    "C09": {
        "level": "Bounded model checking of the real ordering filter (context::ignore_attribute) against the rule as stated in the property, for every sequence of <= 8 (thorough: 12) arbitrary 16-bit attribute type codes; within that bound the SAT verdict covers all sequences, beyond it nothing is claimed.",
        "note": "Trusted: Kani/CBMC/CaDiCaL, the reference rule written in the harness from RFC 8489 with literal IANA type numbers.",
    },
}

_PENDING = "check not built yet in this round; see DESIGN.md §3 for the plan"
NOT_APPLICABLE = {p: _PENDING for p in ["C%02d" % i for i in range(1, 20)]}

VAL = "verif_values::"
NONCE = "attributes::stun::nonce::verif_nonce::"
QS_STRUCT = "quoted-string grammar not run: Nonce built directly from structurally assembled text on which trimming is the identity (over-approximation: any such text may be a nonce)"
QS = "quoted_string_parser::QuotedStringParser::validate -> qs_any (arbitrary verdict: over-approximates the pest grammar)"
prop("C19", [
    H("stunrs", VAL + "c19_message_types_total", timeout=300, mem_gb=3, covers=0, stubs=[NOFMT],
      bounds="all u16 / u8 arguments", funcs=["MessageType::from<u16>", "MessageType::as_u16", "MessageMethod::try_from", "MessageClass::try_from", "MessageType::encode", "AttributeType::*", "AlgorithmId::from", "AddressFamily::try_from"]),
    H("stunrs", VAL + "c19_error_code_total", timeout=300, mem_gb=3, covers=1, stubs=[NOFMT],
      bounds="all u16 error codes, fixed 3-byte reason", funcs=["types::ErrorCode::new/class/number/reason"]),
    H("stunrs", VAL + "c19_password_algorithms_clone_mutate", timeout=300, mem_gb=4, covers=2, stubs=[NOFMT],
      bounds="0 or 1 element, clone, one add on either copy, arbitrary algorithm ids",
      funcs=["PasswordAlgorithms::add/clone/password_algorithms"]),
    H("stunrs", VAL + "c19_unknown_attributes_clone_mutate", timeout=300, mem_gb=4, covers=1, stubs=[NOFMT],
      bounds="1 element, clone, one add on either copy, arbitrary u16 values",
      funcs=["UnknownAttributes::add/clone/attributes"]),
] + [
    H("stunrs", NONCE + "c19_nonce_cookie_k%d_c%d" % (k, c), timeout=900, mem_gb=8, covers=None, stubs=[NOFMT, QS_STRUCT],
      tier="quick" if (k, c) in ((1, 1), (2, 1), (3, 1)) else "thorough",
      bounds="nonce = 'obMatJos2' + %d printable ASCII chars + U+00%s lead char + %d continuation char(s) U+0080..BF (each 2 UTF-8 bytes, the sequences the real quoted-string grammar admits) + 'xyz'" % (k, "C0..DF" if c == 1 else "E0..EF", c),
      funcs=["Nonce::is_nonce_cookie", "Nonce::security_features"],
      sample="'obMatJos2' 'aaa' U+00C3 U+00A9 'xyz'")
    for (k, c) in ((0, 1), (1, 1), (2, 1), (3, 1), (4, 1), (0, 2), (1, 2))
] + [
    H("stunrs", NONCE + "c19_nonce_cookie_ascii_k%d" % k, timeout=900, mem_gb=8, covers=None, stubs=[NOFMT, QS_STRUCT],
      tier="quick" if k == 4 else "thorough",
      bounds="nonce = 'obMatJos2' + %d arbitrary printable ASCII chars (base64 and non-base64 flag characters)" % k,
      funcs=["Nonce::is_nonce_cookie", "Nonce::security_features"]) for k in (3, 4, 6)
], outside="strings longer than 18 bytes; PRECIS on non-ASCII input; public functions not listed in functions_encoded")
DESCR["C19"] = {
    "level": "Bounded model checking of the value types' public constructors/accessors/conversions over their whole integer domains, of clone-then-mutate sequences on the Arc-backed types, and of the nonce-cookie accessors on structurally assembled multi-byte strings; absence of any reachable panic/overflow/slice failure is what CBMC checks.",
    "note": "Trusted: Kani/CBMC; qs_any over-approximates the quoted-string grammar (counterexamples through it are model-level and are confirmed by a native replay before a fix is made); error texts stubbed (nofmt).",
}

TMO = "timeout::verif_timeout::"
CDS = "std::time::Instant::checked_duration_since -> non-recursive stub computing the same function"
_c06 = [H("agent", TMO + "c06_default_chain", timeout=300, mem_gb=4, covers=0, stubs=[CDS],
          bounds="defaults (500 ms, Rm 16, Rc 7), on-time calls", funcs=["RtoManager::next_rto", "RtoCalculator::next_rto"])]
for (rto, rc) in ((500, 7), (500, 1), (3000, 3)):
    _c06.append(H("agent", TMO + "c06_first_rto%d_rc%d" % (rto, rc), timeout=300, mem_gb=4, covers=0, stubs=[CDS],
                  bounds="RTO=%d ms, Rc=%d, Rm symbolic 1..32, first call at an arbitrary instant" % (rto, rc),
                  funcs=["RtoManager::new", "RtoManager::next_rto"]))
for (rto, rc, i, tier) in ([(500, 7, i, "quick") for i in range(1, 8)] + [(500, 1, 1, "quick"), (500, 2, 1, "quick"), (500, 2, 2, "quick"),
                           (1, 4, 1, "thorough"), (1, 4, 3, "thorough"), (3000, 3, 1, "thorough"), (3000, 3, 2, "thorough"), (3000, 3, 3, "thorough"),
                           (500, 10, 1, "thorough"), (500, 10, 5, "thorough"), (500, 10, 9, "thorough"), (500, 10, 10, "thorough")]):
    _c06.append(H("agent", TMO + "c06_step_rto%d_rc%d_i%d" % (rto, rc, i), tier=tier, timeout=2400 if rc == 10 else 600, mem_gb=6, covers=(2 if i == rc else 3), stubs=[CDS],
                  bounds="inductive step: RTO=%d ms, Rc=%d, Rm symbolic 1..32, arbitrary pre-state with slot index %d (latest/last_rto symbolic, latest+last_rto = D_%d), one call at any later instant within 700 s" % (rto, rc, i, i),
                  funcs=["RtoManager::next_rto", "RtoCalculator::next_rto"],
                  sample="pre: latest=t0+1.2s,last_rto=0.3s (D_2=1.5s); call at t0+4.0s -> Some(3.5s... D_4=7.5s-4.0s)"))
prop("C06", _c06, outside="RTO values other than 1/500/3000 ms (the schedule is linear in RTO), Rc > 10, client-level observation of the schedule (see C05/C11 glue harnesses)",
     assumptions=["timer calls are made at non-decreasing instants (monotonic clock)"])
DESCR["C06"] = {
    "level": "Bounded model checking of the real RtoManager/RtoCalculator: base case (first call) plus one inductive step from an arbitrary state satisfying the schedule invariant, with the call instant, the previous call instant and Rm symbolic, against a closed-form RFC 8489 schedule; histories of any length follow by induction for the instantiated (RTO, Rc).",
    "note": "Trusted: Kani/CBMC; Instant built by transmute of (sec,nsec); Instant subtraction replaced by a non-recursive stub computing the same function; RTO and Rc concretised per instance (listed in evidence).",
}

LIBH = "verif_lib::"
_c16 = []
for (name, tier, to, mem) in (("c16_buf28_s26_l4_cut1", "quick", 900, 10), ("c16_buf24_s26_l4_cut1", "quick", 900, 10), ("c16_buf22_s26_l4_cut1", "quick", 900, 10),
                   ("c16_buf20_s24_l4_cut1", "quick", 900, 10), ("c16_buf24_s24_l4_cut1_anyhdr", "quick", 900, 10),
                   ("c16_buf24_s26_l4_cut2", "thorough", 2400, 14), ("c16_buf22_s26_l4_cut2", "quick", 1500, 14), ("c16_buf22_s24_l4_cut2_anyhdr", "thorough", 2400, 14),
                   ("c16_buf22_s24_l4_cut3", "thorough", 3000, 16), ("c16_buf32_s34_l12_cut1", "thorough", 2400, 14), ("c16_buf26_s34_l12_cut2", "thorough", 3000, 16)):
    m = __import__("re").match(r"c16_buf(\d+)_s(\d+)_l(\d+)_cut(\d)(_anyhdr)?", name)
    _cov = 1 + (1 if int(m.group(1)) < 20 + int(m.group(3)) else 0) + (1 if m.group(5) else 0)
    _c16.append(H("agent", LIBH + name, tier=tier, timeout=to, mem_gb=mem, covers=_cov, stubs=[NOFMT],
                  bounds="buffer %s bytes, stream %s symbolic bytes (one packet with symbolic length field 0..%s followed by bytes of the next packet), %s symbolic cut position(s) incl. empty chunks, header %s" % (m.group(1), m.group(2), m.group(3), m.group(4), "arbitrary (bad cookie/bits included)" if m.group(5) else "valid"),
                  funcs=["StunPacketDecoder::new", "StunPacketDecoder::decode", "stun_rs::MessageHeader::try_from"],
                  sample="stream=hdr(len=3)+3+3 bytes, cuts=[7,21], buffer 22 -> More(None), SmallBuffer(consumed 13)"))
prop("C16", _c16, outside="packets with more than 12 attribute bytes, more than 3 cuts, buffers larger than 32 bytes; several packets are covered only through 'bytes after the packet are not consumed' (each packet needs a fresh decoder by API design)")
DESCR["C16"] = {
    "level": "Bounded model checking of the real StunPacketDecoder: for concrete small buffer/stream sizes, all packet contents, all length fields and all positions of 1-3 cuts are decided by one SAT query per size instance against a reference outcome function.",
    "note": "Trusted: Kani/CBMC; sizes concrete per instance (listed in evidence); error texts stubbed.",
}

RTT = "rtt::verif_rtt::"
MULF = "core::time::Duration::mul_f32 -> exact-arithmetic contract for the factors 0.125/0.25/0.75/0.875/4.0, arbitrary result for any other factor (f32 is out of the solver's reach)"
prop("C15", [
    H("agent", RTT + "c15_first_sample", timeout=600, mem_gb=6, covers=2, stubs=[MULF], bounds="configured RTO <= 10 s, G <= 100 ms, R <= 1.5 s, all nanosecond values", funcs=["RttCalcuator::new/update/rto"]),
    H("agent", RTT + "c15_later_sample_step", timeout=900, mem_gb=8, covers=3, stubs=[MULF], bounds="arbitrary estimator state SRTT, RTTVAR <= 1.5 s, G <= 100 ms, sample R <= 1.5 s", funcs=["RttCalcuator::update"]),
    H("agent", RTT + "c15_reset_then_first_sample", timeout=900, mem_gb=8, covers=0, stubs=[MULF], bounds="new, one sample, reset, one sample; all values symbolic", funcs=["RttCalcuator::reset/update"]),
    H("agent", RTT + "c15_two_samples_api", timeout=900, mem_gb=8, covers=0, stubs=[MULF], bounds="new, two samples through the public API; all values symbolic", funcs=["RttCalcuator::update"]),
], outside="single-precision rounding of Duration::mul_f32 (std) and its accumulation over many samples; the client-side feeding rules (Karn, 600 s staleness) are decided in the agent-slice glue harnesses when present",
     assumptions=["Duration::mul_f32(x, c) = floor(x*c) for the five RFC constants (within 1e-5 relative + 1 us of std's f32 result, which is the property's tolerance)"])
DESCR["C15"] = {
    "level": "Bounded model checking of the real RttCalcuator integer structure (which quantities are combined, in which order, with which constants) for all nanosecond values of state, sample and granularity in range, with std's f32 multiply replaced by its exact contract.",
    "note": "Trusted: Kani/CBMC; the mul_f32 contract stub; floating-point rounding is outside the claim.",
}

_c11 = []
for (nm, n, tier, to) in (("next", 0, "quick", 300), ("next", 1, "quick", 600), ("next", 2, "quick", 900), ("next", 3, "thorough", 1800),
                          ("check", 1, "quick", 600), ("check", 2, "quick", 900), ("check", 3, "thorough", 1800),
                          ("remove", 1, "quick", 900), ("remove", 2, "thorough", 1800)):
    _c11.append(H("agent", TMO + "c11_%s_n%d" % (nm, n), tier=tier, timeout=to, mem_gb=10, covers=None, stubs=[CDS],
          bounds="queue built by %d add() calls with arbitrary (instant, timeout <= 100 s, id in 0..3), then one %s at an arbitrary instant" % (n, {"next": "next_timeout(t)", "check": "check(t)", "remove": "remove(id)"}[nm]),
          funcs=["StunMessageTimeout::add/remove/next_timeout/check", "TimeoutItem::cmp"]))
prop("C11", _c11, outside="more than 3 queued deadlines; the client-side emission of the notification (glue harness) and the composition argument of DESIGN §3 C11",
     assumptions=["ids are distinguished by their first byte only in the harness (12 equal bytes)"])
DESCR["C11"] = {
    "level": "Bounded model checking of the real deadline queue (StunMessageTimeout over std BinaryHeap) for queues of up to 3 arbitrary entries and one arbitrary operation at an arbitrary instant: the entry named is one with the earliest deadline, the remaining time saturates at zero, check() pops exactly the due entries.",
    "note": "Kernel-level claim: the notification content is what the queue yields; emission by the client (exactly when a request is outstanding) is decided only where the agent-slice glue harness is registered (see evidence). Trusted: Kani/CBMC, Instant by transmute, non-recursive Instant subtraction stub.",
}

# ---------------------------------------------------------------------------------------------
# C01 / C02: attribute level (verif_attrs.rs) — one harness per kind / size instance
# ---------------------------------------------------------------------------------------------
ATT = "verif_attrs::"
PRECIS = "strings::opaque_string_prepapre/enforce -> precis_ascii (identity on printable ASCII, Err on empty/control: the documented OpaqueString behaviour on ASCII)"
QSPLAIN = "QuotedStringParser::validate -> qs_plain (accepts exactly printable ASCII without SP, '\"' and '\\\\': qdtext; harness inputs are drawn from that alphabet)"
_ATTR_ALL = ['attr_additional_address_family', 'attr_address_error_code', 'attr_alternate_server_v4', 'attr_alternate_server_v6', 'attr_change_request', 'attr_channel_number', 'attr_data_l0', 'attr_data_l1', 'attr_data_l2', 'attr_data_l3', 'attr_data_l5', 'attr_empty_kinds', 'attr_error_code_l0', 'attr_error_code_l1', 'attr_error_code_l3', 'attr_error_code_l6', 'attr_even_port', 'attr_ice_controlled', 'attr_ice_controlling', 'attr_icmp', 'attr_lifetime', 'attr_mapped_address_v4', 'attr_mapped_address_v6', 'attr_mobility_ticket_l1', 'attr_mobility_ticket_l4', 'attr_nonce_l1', 'attr_nonce_l2', 'attr_nonce_l4', 'attr_other_address_v4', 'attr_other_address_v6', 'attr_padding_l2', 'attr_padding_l5', 'attr_password_algorithm_p0', 'attr_password_algorithm_p1', 'attr_password_algorithm_p3', 'attr_password_algorithm_p4', 'attr_password_algorithms_n0', 'attr_password_algorithms_n1_p0', 'attr_password_algorithms_n1_p3', 'attr_password_algorithms_n2_p0_p0', 'attr_password_algorithms_n2_p1_p2', 'attr_password_algorithms_n2_p2_p0', 'attr_password_algorithms_n2_p3_p3', 'attr_password_algorithms_n3_p1_p2_p0', 'attr_password_algorithms_n3_p0_p0_p0', 'attr_password_algorithms_n3_p3_p1_p2', 'attr_priority', 'attr_realm_l1', 'attr_realm_l3', 'attr_realm_l5', 'attr_registry_codes_distinct', 'attr_requested_address_family', 'attr_requested_transport', 'attr_reservation_token', 'attr_response_origin_v4', 'attr_response_origin_v6', 'attr_response_port', 'attr_software_l0', 'attr_software_l1', 'attr_software_l3', 'attr_software_l6', 'attr_software_limit_509', 'attr_software_limit_510', 'attr_unknown_attributes', 'attr_user_hash', 'attr_user_name_l1', 'attr_user_name_l2', 'attr_user_name_l4', 'attr_xor_mapped_address_v4', 'attr_xor_mapped_address_v6', 'attr_xor_peer_address_v4', 'attr_xor_peer_address_v6', 'attr_xor_relayed_address_v4', 'attr_xor_relayed_address_v6']
_STRK = ("attr_nonce", "attr_realm", "attr_user_name", "attr_software", "attr_padding")


def _attr_h(n, tier="quick"):
    st = [NOFMT] + ([PRECIS, QSPLAIN] if n.startswith(_STRK) else [])
    return H("stunrs", ATT + n, tier=tier, timeout=900, mem_gb=6, covers=None, stubs=st,
             bounds="attribute kind/size instance '%s': value fields fully symbolic (strings: printable ASCII of the instance's length; lists/params of the instance's sizes), 44-byte output buffer pre-filled with a symbolic byte, arbitrary transaction id" % n[5:],
             funcs=["<kind as EncodeAttributeValue>::encode", "<kind as DecodeAttributeValue>::decode", "StunAttributeType::get_type"],
             sample="e.g. XOR-MAPPED-ADDRESS v6: out[4+j] == ip[j] ^ msg[4+j] for symbolic j, decode(encode(a)) == a")

MSG = "verif_msg::"
TID = "<TransactionId as Default>::default -> tid_any (rand reaches intrinsics Kani cannot compile; ids are always supplied explicitly in the harness)"
REG = "registry::get_handler -> registry_from_source (if-chain generated from the register::<X>() lines of the working tree; codes checked pairwise distinct)"
_MSG_KINDS = ["even_port", "unknown_attributes", "data3", "channel_number", "xor_mapped_v4", "data5"]


def _msg_rt(k, tier="quick"):
    return H("stunrs", MSG + "c01_msg_" + k, tier=tier, timeout=1500, mem_gb=10, covers=None, stubs=[NOFMT, TID, REG],
             bounds="one-attribute message (%s): method 0..0xFFF, class, transaction id and attribute value symbolic; 48-byte buffer; padding bytes re-written with arbitrary values before decoding" % k,
             funcs=["MessageEncoder::encode", "MessageDecoder::decode", "RawMessage::decode", "RawAttributesIter::next", "context::ignore_attribute"])


def _msg_disc(k, tier="quick"):
    return H("stunrs", MSG + "c14_msg_" + k, tier=tier, timeout=1500, mem_gb=10, covers=2, stubs=[NOFMT, TID],
             bounds="one-attribute message (%s): all contents symbolic, output buffer of every length 0..48 (symbolic), pre-filled with a symbolic byte" % k,
             funcs=["MessageEncoder::encode", "common::check_buffer_boundaries", "common::fill_padding_value", "common::padding"],
             sample="blen=27 < needed=28 -> Err; blen=28 -> Ok(28), buf[28..] untouched")


prop("C01",
     [_attr_h(n, "quick" if not n.endswith(("_l6", "_l5", "_p4", "_p3_p3", "limit_510")) else "thorough") for n in _ATTR_ALL]
     + [H("stunrs", MSG + "c01_msg_empty", timeout=900, mem_gb=8, covers=None, stubs=[NOFMT, TID, REG], bounds="header-only message, buffer length 0..48 symbolic",
          funcs=["MessageEncoder::encode", "MessageDecoder::decode"])]
     + [_msg_rt(k, "quick" if k in ("even_port", "unknown_attributes", "data3", "channel_number") else "thorough") for k in _MSG_KINDS],
     outside="strings longer than 6 bytes and non-ASCII strings (PRECIS / quoted-string behaviour stubbed on an ASCII alphabet); byte vectors > 5; lists > 2; messages with more than one attribute at message level (MESSAGE-INTEGRITY / FINGERPRINT tails: see C04/C10); the 509/510-byte limits only as concrete witnesses",
     assumptions=["AlgorithmId::Unassigned(0|1|2) and Some(&[]) parameters are wire aliases of Reserved/MD5/SHA256 and None and are outside the documented domain"])
DESCR["C01"] = {
    "level": "Bounded model checking of the real encode/decode pair of each of the 38 attribute kinds (value fields fully symbolic, sizes instantiated) and of one-attribute messages through the real MessageEncoder/MessageDecoder: within the stated sizes the SAT verdict covers every value, transaction id, method and class.",
    "note": "Trusted: Kani/CBMC; stubs nofmt, tid_any, registry_from_source, precis_ascii, qs_plain (each listed in evidence with its contract). Multi-attribute messages and long strings are outside the bound.",
}

prop("C02",
     [H("stunrs", MSG + "c02_message_type_bits", timeout=300, mem_gb=3, covers=None, stubs=[NOFMT], bounds="all 16384 (method, class) pairs, both directions, arbitrary top two bits",
        funcs=["MessageType::as_u16", "MessageType::from<u16>"])]
     + [_attr_h(n, "quick" if not n.endswith(("_l6", "_l5", "_l3", "_l2", "_p4", "_p3_p3", "_p0_p0", "limit_510", "limit_509")) else "thorough") for n in _ATTR_ALL]
     + [_msg_disc(k, "quick" if k in ("data3", "xor_mapped_v4") else "thorough") for k in _MSG_KINDS],
     outside="as C01; the reference layouts are written in the harness from the RFC text (RFC 8489 §5/§14, RFC 8656 §18, RFC 5780 §7, RFC 8445 §16.1) and could share a misreading with the implementation; RFC 5769 vectors stay with the existing suite")
DESCR["C02"] = {
    "level": "Differential bounded model checking: the bytes written by the real encoders are compared, for every symbolic value, with a reference written in the harness from the RFC field diagrams (type bits for all 16384 pairs, type codes, big-endian fields, XOR-ed addresses with every transaction-id byte, ERROR-CODE split for all 400 codes, nested PASSWORD-ALGORITHMS padding, zero padding); reserved bits and padding set to arbitrary values decode identically.",
    "note": "Trusted: Kani/CBMC and the harness-side reference; stubs as in C01.",
}

prop("C14",
     [_msg_disc(k, "quick" if k in ("even_port", "unknown_attributes", "data3", "channel_number", "xor_mapped_v4") else "thorough") for k in _MSG_KINDS]
     + [H("stunrs", MSG + "c01_msg_empty", timeout=900, mem_gb=8, covers=None, stubs=[NOFMT, TID, REG], bounds="header-only message, buffer length 0..48 symbolic", funcs=["MessageEncoder::encode"])],
     outside="messages longer than 48 bytes; the 64 KiB boundary (16-bit length accumulator) is decided by the MIR->SMT engine when registered (see evidence)")
DESCR["C14"] = {
    "level": "Bounded model checking of the real MessageEncoder::encode with the output buffer length as a symbolic dimension (0..48) and a symbolic pre-fill: Ok exactly when the buffer is long enough, exact size, bytes beyond it untouched, never a panic.",
    "note": "Small messages only (one attribute, <= 48 bytes); the 64 KiB half of the property is handled separately (see evidence/DESIGN).",
}

# ---------------------------------------------------------------------------------------------
# agent-slice glue harnesses (real client.rs over the environment model)
# ---------------------------------------------------------------------------------------------
GL = "client::verif_client::"
ENVM = "stun_rs (whole crate) -> /verif/shim/stun-rs environment model: decode = Err | any class with the id of a live / unknown request; encode = Err | Ok"
LIGHT = "agent modules fingerprint / st_cred_mech / lt_cred_mech / message -> light models returning the verdict chosen by the harness (fingerprint Ok(true|false)|Err; mechanism Ok|Discarded|NotRetryable|ProtectionViolated|Retry, for indications Ok|Discarded only)"
QMODEL = "StunMessageTimeout::{add,remove,next_timeout,check} -> 2-slot contract model (the contract verified on the real queue by the C11 kernel); due/not-due concrete per instance, made consistent with the symbolic instant by an assume"
RMODEL = "RtoManager::next_rto -> Some(positive interval) | None chosen by the harness (the contract verified on the real schedule by the C06 kernel)"
RTTREC = "RttCalcuator::{update,reset} -> recording stubs (arithmetic verified by the C15 kernel)"
VMAP = "std HashMap in client.rs -> VecMap (linear-scan map with the same API subset; hashbrown is out of CBMC's reach)"
_GS = [NOFMT, CDS, ENVM, LIGHT, QMODEL, RMODEL, RTTREC, VMAP]
_GF = ["StunClient::send_request", "StunClient::send_indication", "StunClient::on_buffer_recv", "StunClient::on_timeout", "StunClient::events", "StunClient::set_timeout", "StunClient::transaction_finished", "client::process_integrity_error", "client::prepare_stun_message", "TransactionEventHandler/TransactionEvents (events.rs)"]


def _g(name, tier="quick", timeout=1500, mem=12, bounds="", covers=None):
    return H("slice", GL + name, tier=tier, timeout=timeout, mem_gb=mem, covers=covers, stubs=_GS, funcs=_GF, bounds=bounds, playback=False)


_G_TIMEOUT1 = [
    _g("glue_timeout_k1_notdue", bounds="1 live request (send instant Some/None, arbitrary deadline), on_timeout at an arbitrary instant before the deadline", covers=0),
    _g("glue_timeout_k1_due_unreliable", bounds="1 live request, deadline due, arbitrary instant, schedule answers Some(any interval)/None", covers=2),
    _g("glue_timeout_k1_due_reliable", bounds="as above on reliable transport", covers=2),
    _g("glue_timeout_k1_due_st", bounds="as above with short-term mechanism (marker verdict arbitrary)", covers=2),
    _g("glue_timeout_k1_due_lt", tier="thorough", bounds="as above with long-term mechanism", covers=2),
]
_G_TIMEOUT2 = [
    _g("glue_timeout_k2_none_due", tier="thorough", timeout=2400, mem=16, bounds="2 live requests, none due", covers=1),
    _g("glue_timeout_k2_first_due", tier="thorough", timeout=2400, mem=16, bounds="2 live requests, first due", covers=1),
    _g("glue_timeout_k2_second_due", tier="thorough", timeout=2400, mem=16, bounds="2 live requests, second due", covers=1),
    _g("glue_timeout_k2_both_due", timeout=2400, mem=16, bounds="2 live requests, both due, each schedule answer arbitrary", covers=2),
]
_G_SEND = [
    _g("glue_base", timeout=300, mem=4, bounds="fresh client", covers=0),
    _g("glue_send_k0", bounds="0 live, limit 0..3 symbolic, request or indication, encode/prepare may fail, buffer 8 or 20 bytes", covers=1),
    _g("glue_send_k1", bounds="1 live, limit 1..3 symbolic, request or indication", covers=2),
    _g("glue_send_k2", tier="thorough", timeout=2400, mem=16, bounds="2 live, limit 2..3 symbolic", covers=1),
    _g("glue_send_k1_lt", tier="thorough", bounds="1 live, long-term mechanism model", covers=2),
]
_G_RECV = [
    _g("glue_recv_k0", bounds="0 live; decode Err | any class, unknown id; all verdicts", covers=0),
    _g("glue_recv_k1", timeout=2400, mem=16, bounds="1 live (send instant Some/None); decode Err | any class with live/unknown id", covers=2),
    _g("glue_recv_k1_fp", timeout=2400, mem=16, bounds="as k1 with use_fingerprint and fingerprint verdict Ok(true)/Ok(false)/Err", covers=3),
    _g("glue_recv_k1_st", timeout=2400, mem=16, bounds="as k1 with short-term mechanism model, all five verdicts", covers=3),
    _g("glue_recv_k1_st_fp", tier="thorough", timeout=2400, mem=16, bounds="as k1 with fingerprint and short-term mechanism", covers=3),
    _g("glue_recv_k1_lt", tier="thorough", timeout=2400, mem=16, bounds="as k1 with long-term mechanism model", covers=3),
    _g("glue_recv_k2", tier="thorough", timeout=3000, mem=20, bounds="2 live", covers=2),
    _g("glue_recv_k2_st_fp", tier="thorough", timeout=3000, mem=20, bounds="2 live, fingerprint and short-term mechanism", covers=3),
]
_G_RTT = [_g("glue_rtt_staleness", bounds="two consecutive requests with an arbitrary gap 0..1300 s", covers=2)]

_SLICE_OUT = ("more than 2 concurrent requests; the environment model of stun-rs and the light mechanism models are trusted to allow everything the real code can do (the real codec and the real mechanisms are checked separately); "
              "transaction ids drawn from a counter (the RNG never repeats an id); arbitrary bytes -> client composition on the real stack")
prop("C05", _G_SEND[:3] + _G_TIMEOUT1 + _G_TIMEOUT2 + _G_RECV, outside=_SLICE_OUT,
     assumptions=["Inv (table ids == queue ids) characterises the reachable client states; base + step harnesses establish it for <= 2 live requests", "for indications the mechanisms answer Ok or Discarded only (holds for both real mechanisms by reading; see C07)"])
DESCR["C05"] = {
    "level": "Bounded model checking of the real client.rs as glue: induction base plus one arbitrary operation (send, timer call with any subset of deadlines due and any schedule answer, received buffer with any decoding/fingerprint/mechanism verdict) from a havocked state with <= 2 live requests; asserts exactly one final event per finished id, removal from table and queue, silence otherwise, and the invariant again. Histories of any length follow by induction within the 2-request bound.",
    "note": "Assume/guarantee: stun-rs, the mechanisms, the deadline queue and the RTO schedule are replaced by models (listed as stubs in evidence); counterexamples are model-level and are confirmed by a native test on the real stack before being called defects.",
}
prop("C12", _G_SEND + [_G_TIMEOUT1[1], _G_TIMEOUT1[2], _G_TIMEOUT2[3]] + [_G_RECV[1], _G_RECV[3]], outside=_SLICE_OUT + "; limits above 3",
     assumptions=["as C05"])
DESCR["C12"] = {
    "level": "Same inductive step as C05 with the limit symbolic (0..3): send_request is refused with MaxOutstandingRequestsReached exactly when the table is full, a refusal changes nothing, every final outcome (response, failure, time-out, retry) removes exactly one entry, indications never change the table.",
    "note": "As C05; 'counts exactly the unfinished requests' = Inv + this step.",
}
prop("C17", _G_RECV, outside=_SLICE_OUT + "; the mechanisms' own state on rejection (learned algorithm, cached parameters, violated-id marker) belongs to the C07/C08 harnesses on the real mechanism code",
     assumptions=["as C05"])
DESCR["C17"] = {
    "level": "Frame condition on the on_buffer_recv step: whenever the real client returns Err (undecodable, request, unknown/finished id, fingerprint absent/wrong/failed, mechanism says Discarded) there are no events and the transaction table, per-transaction send instants, queue deadlines and RTT estimator are field-by-field unchanged.",
    "note": "As C05. Credential-state frame conditions are outside this check (mechanisms are modelled here).",
}

RAW = "raw::verif_raw::"
HMACSTUB = "<MessageIntegrity|MessageIntegritySha256 as HmacSha>::hmac_sha -> recording stub (copies key and input to ghost buffers, returns the MAC chosen by the harness): HMAC/SHA primitives and their strength are outside the claim"
CRCSTUB = "FINGERPRINT value compared with the crc crate's CRC of the expected input (the crate's CRC vs a bitwise CRC-32/ISO-HDLC reference is decided by the c10_crc_* queries)"
_C04_RAW = [H("stunrs", RAW + "c04_input_text_n%d" % n, tier=t, timeout=1500, mem_gb=10, covers=1, stubs=[NOFMT],
              bounds="%d-byte buffer: valid header, symbolic length field, all attribute bytes symbolic, attribute type symbolic (all 65536)" % n,
              funcs=["raw::get_input_text", "RawMessage::decode", "RawAttributesIter::next", "RawAttribute::decode"],
              sample="buf = hdr(len=16) | 0x8022 len 1 'x' pad3 | 0x0008 len 4 .... -> input = buf[..28] with length := 16")
            for (n, t) in ((28, "quick"), (36, "quick"), (44, "thorough"))]
_C04_TAIL = [H("stunrs", MSG + n, tier=t, timeout=1800, mem_gb=12, covers=None, stubs=[NOFMT, TID, PRECIS, HMACSTUB, CRCSTUB],
               bounds="message = UNKNOWN-ATTRIBUTES(1 symbolic code) + tail %s; method/class/transaction id symbolic; MAC/CRC values symbolic" % n.split("tail_")[1],
               funcs=["MessageEncoder::encode", "MessageIntegrity::post_encode", "MessageIntegritySha256::post_encode", "Fingerprint::post_encode", "raw::get_input_text"])
             for (n, t) in (("c04_tail_mi", "quick"), ("c04_tail_sha", "quick"), ("c04_tail_mi_sha", "thorough"), ("c04_tail_mi_fp", "quick"), ("c04_tail_sha_fp", "thorough"), ("c04_tail_mi_sha_fp", "thorough"))]
prop("C04", _C04_RAW + _C04_TAIL,
     outside="HMAC-SHA1 / HMAC-SHA256 / MD5 / SHA-256 primitives, their argument order inside the primitive crates, and the long-term key derivation string (assumed; covered by the RFC 5769/8489 vectors of the existing suite); 'no other key or message yields this MAC' is a cryptographic assumption; buffers > 44 bytes for the walker, tails beyond one ordinary attribute",
     assumptions=["HMAC is a secure MAC: two different inputs or keys do not collide"])
DESCR["C04"] = {
    "level": "Bounded model checking of which bytes are authenticated: get_input_text against an independent TLV walker for every buffer of the instantiated sizes and every attribute type; the real encoder with the HMAC primitives replaced by recording stubs — key, input (message up to the attribute, length field covering it), placement of the MAC, and invariance of the input under appended SHA256/FINGERPRINT attributes.",
    "note": "Decides MAC-input selection, not cryptographic strength (assumed). Trusted: Kani/CBMC, the recording stubs, precis_ascii for the 2-byte ASCII password.",
}
_C10_CRC = [H("stunrs", MSG + "c10_crc_n%d" % n, tier=t, timeout=900, mem_gb=6, covers=None, bounds="all inputs of %d bytes" % n,
              funcs=["crc::Crc::<u32>::new(&CRC_32_ISO_HDLC)", "crc::Crc::<u32>::checksum"]) for (n, t) in ((0, "quick"), (1, "quick"), (3, "quick"), (4, "quick"), (8, "thorough"))]
_C10_TAIL = [H("stunrs", MSG + n, tier=t, timeout=1800, mem_gb=12, covers=None, stubs=[NOFMT, TID, PRECIS, HMACSTUB, CRCSTUB],
               bounds="message = UNKNOWN-ATTRIBUTES + tail %s, contents symbolic" % n.split("tail_")[1], funcs=["MessageEncoder::encode", "Fingerprint::encode/post_encode"])
             for (n, t) in (("c10_tail_fp", "quick"), ("c04_tail_mi_fp", "thorough"))]


# ---- additions: attribute-level buffer discipline (C14), MAC/CRC comparison (C04/C10), trimming (C19)
_C14_ATTR = [H("stunrs", ATT + n, timeout=900, mem_gb=6, covers=2, stubs=[NOFMT],
               bounds="attribute encoder(s) %s into a slice of every length 0..needed+2 (symbolic), symbolic pre-fill" % n[9:-8],
               funcs=["<kind as EncodeAttributeValue>::encode", "common::check_buffer_boundaries"])
             for n in ("c14_attr_error_code_any_len", "c14_attr_address_error_code_any_len", "c14_attr_password_algorithms_any_len", "c14_attr_fixed_kinds_any_len", "c14_attr_bytes_kinds_any_len")]
PROPS["C14"] = PROPS["C14"] + _C14_ATTR
_C04_VAL = [H("stunrs", ATT + n, timeout=900, mem_gb=6, covers=1, stubs=[NOFMT, PRECIS, HMACSTUB],
              bounds="stored MAC and computed MAC both fully symbolic", funcs=["MessageIntegrity::validate", "MessageIntegritySha256::validate"])
            for n in ("c04_validate_mi_compares_all_bytes", "c04_validate_sha256_compares_all_bytes")]
PROPS["C04"] = PROPS["C04"] + _C04_VAL
_C10_VAL = [H("stunrs", ATT + "c10_fingerprint_validate", timeout=900, mem_gb=6, covers=None, stubs=[NOFMT], bounds="stored value and 4-byte input symbolic", funcs=["Fingerprint::validate", "Fingerprint::from<[u8;4]>"])]
STR = "strings::verif_strings::"
_C19_TRIM = [H("stunrs", STR + "c19_quoted_trim_%d_%d" % (a, b), tier=t, timeout=900, mem_gb=8, covers=1, stubs=[NOFMT, QS],
               bounds="text = %d leading + (lead,cont) pair + 'm' + (lead,cont) pair + %d trailing characters; leading/trailing from the removable set and printable ASCII; pairs = U+00C0..DF, U+0080..BF" % (a, b),
               funcs=["strings::formatted_quoted_string_from", "strings::skip_starting_characteres", "strings::skip_trailing_characteres", "QuotedString::new"], playback=True)
             for (a, b, t) in ((0, 0, "quick"), (1, 1, "quick"), (2, 0, "thorough"), (0, 2, "thorough"))]
PROPS["C19"] = PROPS["C19"] + _C19_TRIM

REGSMALL = "registry::get_handler -> 4-kind restriction (MI, SHA256, FINGERPRINT, PRIORITY) of the registry generated from the working tree; agreement on the codes used asserted by c18_registry_small_agrees"
_C18 = [H("stunrs", CTX + "c18_registry_small_agrees", timeout=300, mem_gb=3, covers=None, bounds="7 type codes", funcs=["registry (generated)"])] + [
    H("stunrs", CTX + n, tier=t, timeout=2400, mem_gb=14, covers=2, stubs=[NOFMT, TID, REGSMALL],
      bounds="68-byte message, fixed slot layout (8 | 24 | 8 | 8), slot types symbolic over {FINGERPRINT, PRIORITY, 2 unknown codes}, block type over {MESSAGE-INTEGRITY, unknown}, all value bytes / method / class / transaction id symbolic; decoder options concrete: %s" % n[11:],
      funcs=["MessageDecoder::decode", "context::ignore_attribute", "Unknown::new", "RawMessage::decode", "RawAttributesIter::next"])
    for (n, t) in (("c18_decode_noctx", "quick"), ("c18_decode_default_ctx", "quick"), ("c18_decode_not_ignore", "quick"), ("c18_decode_unknown_data", "thorough"), ("c18_decode_not_ignore_unknown_data", "thorough"))]
prop("C18", _C18, outside="validation-on vs validation-off (needs the MAC/CRC primitives on symbolic buffers; the filter/validation interaction is covered only by the C09 kernel and the C04/C10 input-selection queries); layouts other than the fixed 4-attribute one; attribute kinds other than the 4 registered + unknown")
DESCR["C18"] = {
    "level": "Bounded model checking of the real MessageDecoder::decode under concrete option sets on a fixed-layout 68-byte message with symbolic attribute types and contents: no-context == default-context, not_ignore returns every wire attribute in order, the default result is the subsequence admitted by the RFC rule, with_unknown_data adds exactly the raw value bytes.",
    "note": "The validation-on/off relation is not decided here (listed under outside). Trusted: Kani/CBMC, the 4-kind registry restriction.",
}
PROPS["C09"] = PROPS["C09"] + [PROPS["C18"][1], PROPS["C18"][2]]
