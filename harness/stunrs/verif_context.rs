// Harnesses anchored in stun-rs/src/context.rs (child module: private items are reachable).
#![allow(unused_imports, dead_code)]
use super::*;
use crate::support_common::*;

// ---------------------------------------------------------------------------------------------
// C09 kernel: the ordering filter against the rule as stated in the property.
// Reference is written from RFC 8489 §14.5/§14.6/§14.7 with the IANA numbers as literals.
// ---------------------------------------------------------------------------------------------
const T_MI: u16 = 0x0008;
const T_SHA: u16 = 0x001C;
const T_FP: u16 = 0x8028;

fn c09_rule_seq<const N: usize>() {
    let n: usize = kani::any();
    kani::assume(n <= N);
    let types: [u16; N] = kani::any();
    let mut f = AttributeFilter::default();
    let (mut seen_mi, mut seen_sha, mut seen_fp) = (false, false, false);
    let mut admitted_n = 0usize;
    let mut i = 0;
    while i < n {
        let t = types[i];
        let ignored = ignore_attribute(&mut f, AttributeType::from(t));
        let admitted = if t == T_MI {
            !(seen_mi || seen_sha || seen_fp)
        } else if t == T_SHA {
            !(seen_sha || seen_fp)
        } else if t == T_FP {
            !seen_fp
        } else {
            !(seen_mi || seen_sha || seen_fp)
        };
        if t == T_MI {
            seen_mi = true;
        } else if t == T_SHA {
            seen_sha = true;
        } else if t == T_FP {
            seen_fp = true;
        }
        assert!(ignored == !admitted, "C09: filter verdict differs from the RFC ordering rule");
        if admitted {
            admitted_n += 1;
        }
        i += 1;
    }
    kani::cover!(n == N && seen_mi && seen_sha && seen_fp && admitted_n >= 3);
    kani::cover!(n >= 2 && admitted_n < n);
}

#[kani::proof]
#[kani::unwind(10)]
fn c09_rule_seq8() {
    c09_rule_seq::<8>();
}

#[kani::proof]
#[kani::unwind(14)]
fn c09_rule_seq12() {
    c09_rule_seq::<12>();
}

// type codes of the three special kinds are the IANA numbers the reference uses
#[kani::proof]
fn c09_type_codes() {
    assert!(MessageIntegrity::get_type().as_u16() == T_MI);
    assert!(MessageIntegritySha256::get_type().as_u16() == T_SHA);
    assert!(Fingerprint::get_type().as_u16() == T_FP);
}
