use super::*;
use stun_rs::methods::BINDING;

fn nofmt(_a: std::fmt::Arguments<'_>) -> String { String::new() }
fn stub_tid() -> TransactionId { let b: [u8; 12] = kani::any(); TransactionId::from(b) }

#[repr(C)]
struct RawTs { sec: i64, nsec: u32, pad: u32 }
fn instant_at(sec: i64, nsec: u32) -> Instant {
    unsafe { std::mem::transmute::<RawTs, Instant>(RawTs { sec, nsec, pad: 0 }) }
}
fn any_offset(max_secs: u64) -> Duration {
    let s: u64 = kani::any(); let n: u32 = kani::any();
    kani::assume(s <= max_secs); kani::assume(n < 1_000_000_000);
    Duration::new(s, n)
}

#[kani::proof]
#[kani::unwind(5)]
#[kani::stub(alloc::fmt::format, nofmt)]
#[kani::stub(<stun_rs::TransactionId as std::default::Default>::default, stub_tid)]
fn probe_client_reliable_timeout() {
    let mut client = match StunClienteBuilder::new(TransportReliability::Reliable(Duration::from_secs(5))).with_max_transactions(1).build() { Ok(c) => c, Err(_) => { assert!(false); return; } };
    let t0 = instant_at(1000, 0);
    let tid = match client.send_request(BINDING, StunAttributes::default(), vec![0u8; 24], t0) { Ok(t) => t, Err(_) => { assert!(false); return; } };
    let ev = client.events();
    assert!(ev.len() == 2);
    std::mem::forget(ev);
    let d = any_offset(10);
    client.on_timeout(t0 + d);
    let ev = client.events();
    if d >= Duration::from_secs(5) {
        assert!(ev.len() == 1);
        assert!(matches!(ev[0], StunClientEvent::TransactionFailed((t, StunTransactionError::TimedOut)) if t == tid));
        // slot must be free again
        assert!(client.transactions.len() == 0);
    } else {
        assert!(ev.len() == 1);
        assert!(matches!(ev[0], StunClientEvent::RestransmissionTimeOut((t, left)) if t == tid && left == Duration::from_secs(5) - d));
    }
    std::mem::forget(ev);
    std::mem::forget(client);
}

fn stub_encode_buffer(_e: &MessageEncoder, _m: &StunMessage, buffer: Vec<u8>) -> Result<StunPacket, StunEncodeError> {
    Ok(StunPacket::new(buffer, 20))
}
fn stub_create_msg(method: MessageMethod, class: MessageClass, _t: Option<TransactionId>, _a: StunAttributes) -> StunMessage {
    std::mem::forget(_a);
    stun_rs::StunMessageBuilder::new(method, class).build()
}
#[kani::proof]
#[kani::unwind(5)]
#[kani::stub(alloc::fmt::format, nofmt)]
#[kani::stub(<stun_rs::TransactionId as std::default::Default>::default, stub_tid)]
#[kani::stub(encode_buffer, stub_encode_buffer)]
#[kani::stub(crate::message::create_stun_message, stub_create_msg)]
fn probe_client_reliable_timeout_stubbed() {
    let mut client = match StunClienteBuilder::new(TransportReliability::Reliable(Duration::from_secs(5))).with_max_transactions(1).build() { Ok(c) => c, Err(_) => { assert!(false); return; } };
    let t0 = instant_at(1000, 0);
    let tid = match client.send_request(BINDING, StunAttributes::default(), vec![0u8; 24], t0) { Ok(t) => t, Err(_) => { assert!(false); return; } };
    let ev = client.events();
    assert!(ev.len() == 2);
    std::mem::forget(ev);
    let d = any_offset(10);
    client.on_timeout(t0 + d);
    let ev = client.events();
    assert!(ev.len() == 1);
    if d >= Duration::from_secs(5) {
        assert!(matches!(ev[0], StunClientEvent::TransactionFailed((t, StunTransactionError::TimedOut)) if t == tid));
        assert!(client.transactions.len() == 0);
    } else {
        assert!(matches!(ev[0], StunClientEvent::RestransmissionTimeOut((t, left)) if t == tid && left == Duration::from_secs(5) - d));
    }
    std::mem::forget(ev);
    std::mem::forget(client);
}

#[kani::proof]
#[kani::unwind(4)]
#[kani::stub(alloc::fmt::format, nofmt)]
fn probe_client_on_timeout_direct() {
    let mut client = match StunClienteBuilder::new(TransportReliability::Reliable(Duration::from_secs(5))).with_max_transactions(1).build() { Ok(c) => c, Err(_) => { assert!(false); return; } };
    let t0 = instant_at(1000, 0);
    let tidb: [u8; 12] = kani::any();
    let tid = TransactionId::from(tidb);
    let mut rtos = RtoManager::new(Duration::from_secs(5), 1, 1);
    let first = rtos.next_rto(t0);
    assert!(first == Some(Duration::from_secs(5)));
    client.timeouts.add(t0, Duration::from_secs(5), tid);
    client.transactions.insert(tid, StunTransaction { instant: Some(t0), packet: StunPacket::new(vec![0u8; 20], 20), rtos });
    let d = any_offset(10);
    client.on_timeout(t0 + d);
    let ev = client.events();
    assert!(ev.len() == 1);
    if d >= Duration::from_secs(5) {
        assert!(matches!(ev[0], StunClientEvent::TransactionFailed((t, StunTransactionError::TimedOut)) if t == tid));
        assert!(client.transactions.len() == 0);
    } else {
        assert!(matches!(ev[0], StunClientEvent::RestransmissionTimeOut((t, left)) if t == tid && left == Duration::from_secs(5) - d));
        assert!(client.transactions.len() == 1);
    }
    std::mem::forget(ev);
    std::mem::forget(client);
}
