use crate::{Encode, Decode};
use crate::attributes::{DecodeAttributeValue, EncodeAttributeValue};
use crate::context::{AttributeDecoderContext, AttributeEncoderContext};
use crate::attributes::stun::{Nonce, PasswordAlgorithms};

fn nofmt(_a: std::fmt::Arguments<'_>) -> String { String::new() }
fn stub_tid_default() -> crate::types::TransactionId { crate::types::TransactionId::from([0u8;12]) }
fn stub_validate(_l: quoted_string_parser::QuotedStringParseLevel, _s: &str) -> bool { kani::any() }

// Nonce from arbitrary UTF-8 of <= 16 bytes, quoted-string grammar over-approximated by nondet bool
#[kani::proof]
#[kani::unwind(18)]
#[kani::stub(alloc::fmt::format, nofmt)]
#[kani::stub(quoted_string_parser::QuotedStringParser::validate, stub_validate)]
fn probe_nonce_security_features_nopanic() {
    let mut b: [u8; 16] = kani::any();
    // header concrete so the interesting path is reached
    let hdr = b"obMatJos2";
    let mut i = 0; while i < 9 { b[i] = hdr[i]; i += 1; }
    let n: usize = kani::any(); kani::assume(n >= 9 && n <= 16);
    if let Ok(s) = std::str::from_utf8(&b[..n]) {
        if let Ok(nonce) = Nonce::new(s) {
            if nonce.is_nonce_cookie() {
                let r = nonce.security_features();
                std::mem::forget(r);
            }
            std::mem::forget(nonce);
        }
    }
}

// PasswordAlgorithms: decode arbitrary <=12 bytes never panics; on Ok re-encode gives same bytes
#[kani::proof]
#[kani::unwind(14)]
#[kani::stub(alloc::fmt::format, nofmt)]
fn probe_password_algorithms_decode() {
    let b: [u8; 12] = kani::any();
    let n: usize = kani::any(); kani::assume(n <= 12);
    let msg = [0u8; 20];
    let ctx = AttributeDecoderContext::new(None, &msg, &b[..n]);
    let r = PasswordAlgorithms::decode(ctx);
    if let Ok((attr, size)) = &r {
        assert!(*size == n);
        let mut out = [0xEEu8; 12];
        let ectx = AttributeEncoderContext::new(None, &msg, &mut out);
        let e = attr.encode(ectx);
        match e { Ok(sz) => { assert!(sz == n); } Err(_) => { assert!(false); } }
    }
    std::mem::forget(r);
}

// ErrorCode attribute round trip: code symbolic, reason = symbolic ASCII of len<=5
#[kani::proof]
#[kani::unwind(8)]
#[kani::stub(alloc::fmt::format, nofmt)]
fn probe_error_code_roundtrip() {
    let code: u16 = kani::any(); kani::assume(code >= 300 && code < 700);
    let mut rb: [u8; 5] = kani::any();
    let n: usize = kani::any(); kani::assume(n <= 5);
    let mut i = 0; while i < 5 { kani::assume(rb[i] >= 0x20 && rb[i] < 0x7f); i += 1; }
    let reason = match std::str::from_utf8(&rb[..n]) { Ok(s) => s, Err(_) => { assert!(false); return; } };
    let ec = match crate::ErrorCode::new(code, reason) { Ok(e) => e, Err(_) => { assert!(false); return; } };
    let attr = crate::attributes::stun::ErrorCode::new(ec);
    let msg = [0u8; 20];
    let mut out = [0xEEu8; 12];
    let sz = match attr.encode(AttributeEncoderContext::new(None, &msg, &mut out)) { Ok(s) => s, Err(_) => { assert!(false); return; } };
    assert!(sz == 4 + n);
    assert!(out[0] == 0 && out[1] == 0 && out[2] == (code / 100) as u8 && out[3] == (code % 100) as u8);
    let r = <crate::attributes::stun::ErrorCode as DecodeAttributeValue>::decode(AttributeDecoderContext::new(None, &msg, &out[..sz]));
    match &r { Ok((a, s)) => { assert!(*s == sz); assert!(a.error_code().error_code() == code); assert!(a.error_code().reason().len() == n); }
               Err(_) => assert!(false) }
    std::mem::forget(r); std::mem::forget(attr);
}

// concrete length 14: "obMatJos2" + 5 symbolic bytes
#[kani::proof]
#[kani::unwind(16)]
#[kani::stub(alloc::fmt::format, nofmt)]
#[kani::stub(quoted_string_parser::QuotedStringParser::validate, stub_validate)]
fn probe_nonce_sf_len14() {
    let mut b: [u8; 14] = kani::any();
    let hdr = b"obMatJos2";
    let mut i = 0; while i < 9 { b[i] = hdr[i]; i += 1; }
    if let Ok(s) = std::str::from_utf8(&b) {
        if let Ok(nonce) = Nonce::new(s) {
            if nonce.is_nonce_cookie() {
                let r = nonce.security_features();
                std::mem::forget(r);
            }
            std::mem::forget(nonce);
        }
    }
}

#[cfg(feature = "turn")]
#[kani::proof]
#[kani::unwind(4)]
#[kani::stub(alloc::fmt::format, nofmt)]
#[kani::stub(<crate::types::TransactionId as std::default::Default>::default, stub_tid_default)]
fn probe_encode_64k() {
    use crate::attributes::turn::{Data, DontFragment};
    let n: usize = 65508; // 4 + 65508 = 65512 ; + 4 = 65516 -> +20 overflows u16
    let data = Data::from(vec![0u8; n]);
    let msg = crate::StunMessageBuilder::new(crate::MessageMethod(1), crate::MessageClass::Request)
        .with_transaction_id(crate::TransactionId::from([0u8; 12]))
        .with_attribute(data)
        .with_attribute(DontFragment::default())
        .build();
    let mut buf = vec![0u8; 65560];
    let enc = crate::MessageEncoderBuilder::default().build();
    let r = enc.encode(&mut buf, &msg);
    match &r { Ok(sz) => assert!(*sz == 20 + 65516), Err(_) => {} }
    std::mem::forget(r); std::mem::forget(msg); std::mem::forget(buf);
}

#[cfg(feature = "turn")]
fn stub_data_encode(this: &crate::attributes::turn::Data, ctx: AttributeEncoderContext) -> Result<usize, crate::StunError> {
    let size = this.as_bytes().len();
    crate::common::check_buffer_boundaries(ctx.raw_value(), size)?;
    Ok(size)
}

#[cfg(feature = "turn")]
#[kani::proof]
#[kani::unwind(4)]
#[kani::stub(alloc::fmt::format, nofmt)]
#[kani::stub(<crate::types::TransactionId as std::default::Default>::default, stub_tid_default)]
#[kani::stub(<crate::attributes::turn::Data as crate::attributes::EncodeAttributeValue>::encode, stub_data_encode)]
fn probe_encode_64k_sym() {
    use crate::attributes::turn::Data;
    let l1: usize = kani::any(); kani::assume(l1 <= 65535);
    let l2: usize = kani::any(); kani::assume(l2 <= 65535);
    let mut v1: Vec<u8> = Vec::with_capacity(65536); unsafe { v1.set_len(l1); }
    let mut v2: Vec<u8> = Vec::with_capacity(65536); unsafe { v2.set_len(l2); }
    let msg = crate::StunMessageBuilder::new(crate::MessageMethod(1), crate::MessageClass::Request)
        .with_transaction_id(crate::TransactionId::from([0u8; 12]))
        .with_attribute(Data::from(v1))
        .with_attribute(Data::from(v2))
        .build();
    const N: usize = 140000;
    let mut buf: Vec<u8> = Vec::with_capacity(N); unsafe { buf.set_len(N); }
    let enc = crate::MessageEncoderBuilder::default().build();
    let r = enc.encode(&mut buf, &msg);
    let p1 = (4 - (l1 & 3)) & 3; let p2 = (4 - (l2 & 3)) & 3;
    let total = 4 + l1 + p1 + 4 + l2 + p2;
    match &r {
        Ok(sz) => { assert!(total <= 65535); assert!(*sz == 20 + total); assert!(((buf[2] as usize) << 8 | buf[3] as usize) == total); }
        Err(_) => { assert!(total > 65535); }
    }
    std::mem::forget(r); std::mem::forget(msg); std::mem::forget(buf);
}

#[cfg(feature = "turn")]
#[kani::proof]
#[kani::unwind(4)]
#[kani::stub(alloc::fmt::format, nofmt)]
#[kani::stub(<crate::types::TransactionId as std::default::Default>::default, stub_tid_default)]
#[kani::stub(<crate::attributes::turn::Data as crate::attributes::EncodeAttributeValue>::encode, stub_data_encode)]
fn probe_encode_64k_sym2() {
    use crate::attributes::turn::{Data, DontFragment};
    let l1: usize = kani::any(); kani::assume(l1 >= 65480 && l1 <= 65535);
    let mut v1: Vec<u8> = Vec::with_capacity(65536); unsafe { v1.set_len(l1); }
    let msg = crate::StunMessageBuilder::new(crate::MessageMethod(1), crate::MessageClass::Request)
        .with_transaction_id(crate::TransactionId::from([0u8; 12]))
        .with_attribute(Data::from(v1))
        .with_attribute(DontFragment::default())
        .build();
    const N: usize = 65600;
    let mut buf: Vec<u8> = Vec::with_capacity(N); unsafe { buf.set_len(N); }
    let enc = crate::MessageEncoderBuilder::default().build();
    let r = enc.encode(&mut buf, &msg);
    let p1 = (4 - (l1 & 3)) & 3;
    let total = 4 + l1 + p1 + 4;
    match &r {
        Ok(sz) => { assert!(total <= 65535); assert!(*sz == 20 + total); }
        Err(_) => { assert!(total > 65535); }
    }
    std::mem::forget(r); std::mem::forget(msg); std::mem::forget(buf);
}
