// C03 (framing never panics, size discipline) and C04/C10 (MAC / CRC input selection): the raw TLV
// walker of stun-rs/src/raw.rs.  Child module of raw.rs.
#![allow(unused_imports, dead_code)]
use super::*;
use crate::support_common::*;

// ---------------------------------------------------------------------------------------------
// C03: RawMessage::decode on an arbitrary buffer of N bytes
// ---------------------------------------------------------------------------------------------
fn c03_raw_message<const N: usize>() {
    let buf: [u8; N] = kani::any();
    let r = RawMessage::decode(&buf);
    match &r {
        Ok((m, size)) => {
            let len = ((buf[2] as usize) << 8) | buf[3] as usize;
            assert!(*size == 20 + len, "C03: reported size = 20 + header length field");
            assert!(*size <= N, "C03: never beyond the input");
            assert!(m.attributes.len() == len);
            assert!(buf[0] & 0xc0 == 0 && buf[4] == 0x21 && buf[5] == 0x12 && buf[6] == 0xa4 && buf[7] == 0x42, "C02: header bits and magic cookie are checked");
            // the result depends only on the first `size` bytes: header fields echo the buffer
            assert!(m.header.msg_length as usize == len);
            assert!(m.header.msg_type == ((((buf[0] as u16) << 8) | buf[1] as u16) & 0x3fff));
        }
        Err(_) => {}
    }
    if N >= 20 {
        kani::cover!(r.is_ok());
    }
    std::mem::forget(r);
}

// ---------------------------------------------------------------------------------------------
// C03: the attribute walker on an arbitrary attribute area of N bytes: terminates, never panics,
// every attribute handed out lies inside the area, positions strictly increase
// ---------------------------------------------------------------------------------------------
fn c03_raw_iter<const N: usize>() {
    let buf: [u8; N] = kani::any();
    let mut it = RawAttributes::from(&buf[..]).into_fallible_iter();
    let mut last = 0usize;
    let mut steps = 0usize;
    loop {
        match it.next() {
            Ok(Some(a)) => {
                assert!(it.pos() > last && it.pos() <= N, "C03: walker advances and stays inside the area");
                assert!(it.pos() % 4 == 0 || it.pos() == N);
                assert!(4 + a.value.len() <= it.pos() - last);
                last = it.pos();
                steps += 1;
                assert!(steps <= N / 4, "C03: at most one attribute per 4 bytes");
            }
            Ok(None) => {
                assert!(it.pos() == N);
                break;
            }
            Err(e) => {
                std::mem::forget(e);
                break;
            }
        }
    }
    kani::cover!(steps >= 2);
}

// ---------------------------------------------------------------------------------------------
// C04 / C10: get_input_text(buf, type) against an independent TLV walker.
//   Found(pos, end): the first attribute of that type starts at 20+pos and (with padding) ends at
//   20+end  =>  output = buf[..20+pos] with bytes 2..4 := end.  Everything before the attribute
//   except the two length bytes is in the output, nothing after it is.
// ---------------------------------------------------------------------------------------------
#[derive(PartialEq, Eq, Clone, Copy)]
enum Find {
    Found(usize, usize),
    NotFound,
    Malformed,
}
fn ref_find<const N: usize>(buf: &[u8; N], total: usize, t: u16) -> Find {
    let mut p = 20usize;
    let mut guard = 0;
    while guard <= N / 4 {
        if p == total {
            return Find::NotFound;
        }
        if total - p < 4 {
            return Find::Malformed;
        }
        let ty = ((buf[p] as u16) << 8) | buf[p + 1] as u16;
        let alen = ((buf[p + 2] as usize) << 8) | buf[p + 3] as usize;
        let vsz = 4 + alen;
        if p + vsz > total {
            return Find::Malformed;
        }
        let next = p + vsz + ((4 - (vsz & 3)) & 3);
        if next > total {
            return Find::Malformed;
        }
        if ty == t {
            return Find::Found(p - 20, next - 20);
        }
        p = next;
        guard += 1;
    }
    Find::Malformed
}

fn c04_input_text<const N: usize>() {
    let mut buf: [u8; N] = kani::any();
    let len: usize = kani::any();
    kani::assume(len <= N - 20);
    put_header(&mut buf, len as u16);
    let t: u16 = kani::any();
    let r = get_input_text(&buf, t);
    let want = ref_find::<N>(&buf, 20 + len, t);
    match (&r, want) {
        (Ok(v), Find::Found(pos, end)) => {
            assert!(v.len() == 20 + pos, "C04/C10: the MAC/CRC input stops right before the attribute");
            assert!(v[2] == (end >> 8) as u8 && v[3] == end as u8, "C04/C10: length field adjusted to the end of the attribute");
            let j: usize = kani::any();
            kani::assume(j < N);
            if j < v.len() && j != 2 && j != 3 {
                assert!(v[j] == buf[j], "C04/C10: every protected byte is part of the input");
            }
        }
        (Err(_), Find::NotFound) | (Err(_), Find::Malformed) => {}
        _ => assert!(false, "C04/C10: input text exists exactly when a first attribute of that type is found in a well-formed attribute area"),
    }
    kani::cover!(matches!(want, Find::Found(p, _) if p > 0));
    std::mem::forget(r);
}

macro_rules! raw_inst {
    ($($name:ident = $f:ident($n:expr) unwind $u:expr;)*) => {$(
        #[kani::proof]
        #[kani::unwind($u)]
        #[kani::stub(alloc::fmt::format, nofmt)]
        fn $name() { $f::<$n>(); }
    )*};
}
raw_inst! {
    c03_raw_message_n0 = c03_raw_message(0) unwind 6;
    c03_raw_message_n7 = c03_raw_message(7) unwind 6;
    c03_raw_message_n19 = c03_raw_message(19) unwind 6;
    c03_raw_message_n20 = c03_raw_message(20) unwind 6;
    c03_raw_message_n27 = c03_raw_message(27) unwind 6;
    c03_raw_message_n40 = c03_raw_message(40) unwind 6;
    c03_raw_iter_n0 = c03_raw_iter(0) unwind 4;
    c03_raw_iter_n3 = c03_raw_iter(3) unwind 4;
    c03_raw_iter_n8 = c03_raw_iter(8) unwind 5;
    c03_raw_iter_n13 = c03_raw_iter(13) unwind 6;
    c03_raw_iter_n20 = c03_raw_iter(20) unwind 8;
    c04_input_text_n28 = c04_input_text(28) unwind 6;
    c04_input_text_n36 = c04_input_text(36) unwind 8;
    c04_input_text_n44 = c04_input_text(44) unwind 10;
}
