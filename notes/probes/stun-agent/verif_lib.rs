use super::*;
fn nofmt(_a: std::fmt::Arguments<'_>) -> String { String::new() }

// Stream reassembly: one packet of header + L bytes (L<=8), cut into two chunks at symbolic point.
#[kani::proof]
#[kani::unwind(34)]
#[kani::stub(alloc::fmt::format, nofmt)]
fn probe_packet_decoder_two_chunks() {
    let mut stream: [u8; 32] = kani::any();
    let l: usize = kani::any();
    kani::assume(l <= 8);
    stream[0] &= 0x3f;
    stream[2] = 0; stream[3] = l as u8;
    stream[4] = 0x21; stream[5] = 0x12; stream[6] = 0xa4; stream[7] = 0x42;
    let total = 20 + l;
    let cut: usize = kani::any();
    kani::assume(cut <= 32);
    let bufsize: usize = kani::any();
    kani::assume(bufsize >= 20 && bufsize <= 32);
    let dec = match StunPacketDecoder::new(vec![0u8; bufsize]) { Ok(d) => d, Err(_) => { assert!(false); return; } };
    let r1 = dec.decode(&stream[..cut]);
    match r1 {
        Ok(StunPacketDecodedValue::Decoded((p, consumed))) => {
            assert!(cut >= total);
            assert!(consumed == total);
            assert!(p.len() == total);
            let mut i = 0; while i < total { assert!(p[i] == stream[i]); i += 1; }
            std::mem::forget(p);
        }
        Ok(StunPacketDecodedValue::MoreBytesNeeded((d, missing))) => {
            assert!(cut < total);
            if cut >= 20 { assert!(missing == Some(total - cut)); } else { assert!(missing.is_none()); }
            let r2 = d.decode(&stream[cut..]);
            match r2 {
                Ok(StunPacketDecodedValue::Decoded((p, consumed))) => {
                    assert!(consumed == total - cut);
                    assert!(p.len() == total);
                    let mut i = 0; while i < total { assert!(p[i] == stream[i]); i += 1; }
                    std::mem::forget(p);
                }
                Ok(StunPacketDecodedValue::MoreBytesNeeded(_)) => { assert!(false); }
                Err(e) => { assert!(bufsize < total); std::mem::forget(e); }
            }
        }
        Err(e) => { assert!(bufsize < total && cut >= 20); std::mem::forget(e); }
    }
}

// concrete sizes; cut unrolled; content and length symbolic
#[kani::proof]
#[kani::unwind(30)]
#[kani::stub(alloc::fmt::format, nofmt)]
fn probe_packet_decoder_cuts() {
    let mut stream: [u8; 24] = kani::any();
    let l: usize = kani::any();
    kani::assume(l <= 4);
    stream[0] &= 0x3f;
    stream[2] = 0; stream[3] = l as u8;
    stream[4] = 0x21; stream[5] = 0x12; stream[6] = 0xa4; stream[7] = 0x42;
    let total = 20 + l;
    let mut cut = 0usize;
    while cut <= 24 {
        let dec = match StunPacketDecoder::new(vec![0u8; 24]) { Ok(d) => d, Err(_) => { assert!(false); return; } };
        match dec.decode(&stream[..cut]) {
            Ok(StunPacketDecodedValue::Decoded((p, consumed))) => {
                assert!(cut >= total && consumed == total && p.len() == total);
                let mut i = 0; while i < 24 { if i < total { assert!(p[i] == stream[i]); } i += 1; }
                std::mem::forget(p);
            }
            Ok(StunPacketDecodedValue::MoreBytesNeeded((d, missing))) => {
                assert!(cut < total);
                if cut >= 20 { assert!(missing == Some(total - cut)); } else { assert!(missing.is_none()); }
                match d.decode(&stream[cut..]) {
                    Ok(StunPacketDecodedValue::Decoded((p, consumed))) => {
                        assert!(consumed == total - cut && p.len() == total);
                        let mut i = 0; while i < 24 { if i < total { assert!(p[i] == stream[i]); } i += 1; }
                        std::mem::forget(p);
                    }
                    Ok(StunPacketDecodedValue::MoreBytesNeeded((d2, _))) => { assert!(false); std::mem::forget(d2); }
                    Err(e) => { assert!(false); std::mem::forget(e); }
                }
            }
            Err(e) => { assert!(false); std::mem::forget(e); }
        }
        cut += 1;
    }
}

#[kani::proof]
#[kani::unwind(25)]
#[kani::stub(alloc::fmt::format, nofmt)]
fn probe_packet_decoder_cuts2() {
    let mut stream: [u8; 22] = kani::any();
    let l: usize = kani::any();
    kani::assume(l <= 2);
    stream[0] &= 0x3f;
    stream[2] = 0; stream[3] = l as u8;
    stream[4] = 0x21; stream[5] = 0x12; stream[6] = 0xa4; stream[7] = 0x42;
    let total = 20 + l;
    let j: usize = kani::any(); kani::assume(j < total);
    let mut cut = 0usize;
    while cut <= 22 {
        let dec = match StunPacketDecoder::new(vec![0u8; 22]) { Ok(d) => d, Err(_) => { assert!(false); return; } };
        match dec.decode(&stream[..cut]) {
            Ok(StunPacketDecodedValue::Decoded((p, consumed))) => {
                assert!(cut >= total && consumed == total && p.len() == total);
                assert!(p[j] == stream[j]);
                std::mem::forget(p);
            }
            Ok(StunPacketDecodedValue::MoreBytesNeeded((d, missing))) => {
                assert!(cut < total);
                if cut >= 20 { assert!(missing == Some(total - cut)); } else { assert!(missing.is_none()); }
                match d.decode(&stream[cut..]) {
                    Ok(StunPacketDecodedValue::Decoded((p, consumed))) => {
                        assert!(consumed == total - cut && p.len() == total);
                        assert!(p[j] == stream[j]);
                        std::mem::forget(p);
                    }
                    Ok(StunPacketDecodedValue::MoreBytesNeeded((d2, _))) => { assert!(false); std::mem::forget(d2); }
                    Err(e) => { assert!(false); std::mem::forget(e); }
                }
            }
            Err(e) => { assert!(false); std::mem::forget(e); }
        }
        cut += 1;
    }
}

// concrete buffer (24) and stream (24), symbolic single cut, symbolic length field and contents
#[kani::proof]
#[kani::unwind(26)]
#[kani::stub(alloc::fmt::format, nofmt)]
fn probe_packet_decoder_symcut() {
    let mut stream: [u8; 24] = kani::any();
    let l: usize = kani::any();
    kani::assume(l <= 4);
    stream[0] &= 0x3f;
    stream[2] = 0; stream[3] = l as u8;
    stream[4] = 0x21; stream[5] = 0x12; stream[6] = 0xa4; stream[7] = 0x42;
    let total = 20 + l;
    let j: usize = kani::any(); kani::assume(j < total);
    let cut: usize = kani::any(); kani::assume(cut <= 24);
    let dec = match StunPacketDecoder::new(vec![0u8; 24]) { Ok(d) => d, Err(_) => { assert!(false); return; } };
    match dec.decode(&stream[..cut]) {
        Ok(StunPacketDecodedValue::Decoded((p, consumed))) => {
            assert!(cut >= total && consumed == total && p.len() == total);
            assert!(p[j] == stream[j]);
            std::mem::forget(p);
        }
        Ok(StunPacketDecodedValue::MoreBytesNeeded((d, missing))) => {
            assert!(cut < total);
            if cut >= 20 { assert!(missing == Some(total - cut)); } else { assert!(missing.is_none()); }
            match d.decode(&stream[cut..]) {
                Ok(StunPacketDecodedValue::Decoded((p, consumed))) => {
                    assert!(consumed == total - cut && p.len() == total);
                    assert!(p[j] == stream[j]);
                    std::mem::forget(p);
                }
                Ok(StunPacketDecodedValue::MoreBytesNeeded((d2, _))) => { assert!(false); std::mem::forget(d2); }
                Err(e) => { assert!(false); std::mem::forget(e); }
            }
        }
        Err(e) => { assert!(false); std::mem::forget(e); }
    }
}
