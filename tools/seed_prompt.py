#!/usr/bin/env python3
"""Prints the prompt given to a seeding sub-agent for one property (nothing from /verif but the property text)."""
import json, sys
pid, wt = sys.argv[1], sys.argv[2]
extra = sys.argv[3] if len(sys.argv) > 3 else ""
rec = None
for l in open('/verif/properties.jsonl'):
    p = json.loads(l)
    if p['id'] == pid:
        rec = {k: p[k] for k in ('id', 'title', 'statement', 'quantifier', 'why_tests_cant', 'anchors')}
print(f"""You are helping to evaluate a verification effort by seeding a realistic regression into a Rust code base.

The code base is sancane/rustun (a Rust workspace: `stun-rs` = STUN/TURN/ICE message codec, `stun-agent` = sans-IO STUN client, `stun-vectors` = RFC 5769 test vectors). You have your own scratch git worktree of it at `{wt}`. Work ONLY inside `{wt}` (never touch /repo or /verif, do not read anything under /verif). Everything is offline: use `cargo test --workspace --offline` (no network, no new crates).

Here is a semantic property that the code base is supposed to satisfy:

{json.dumps(rec, indent=1)}

Your task: produce ONE change to the library source (not to its tests) that BREAKS this property while
  (a) still compiling without new warnings that would look suspicious,
  (b) still passing the complete existing test suite (`cd {wt} && cargo test --workspace --offline` — all tests must pass, including doc tests), and
  (c) looking like a plausible mistake or well-meant refactoring/optimisation a maintainer could make (an off-by-one, a swapped flag, a forgotten state update, a wrong boundary, a mis-ordered update, a missing cleanup...), not sabotage.
The breakage must need something SPECIFIC to manifest — a particular interleaving or ordering of operations, a late/early timer call, a multi-step sequence, an unusual input value or length, a boundary value, or two cooperating sites that each look fine alone. Do NOT produce a change that ordinary use would expose at once. {extra}

Deliver, inside `{wt}`:
  1. the source change itself, left applied in the worktree (uncommitted is fine);
  2. a demonstration: a new integration test file (e.g. `{wt}/stun-agent/tests/seed_demo.rs` or `{wt}/stun-rs/tests/seed_demo.rs`, using only the public API of the crates where possible; if private access is indispensable, a `#[cfg(test)]` unit test module appended to a source file) that FAILS with your change and PASSES on the original code. Verify both: run it with the change; then save the source change with `git diff -- '*.rs' ':(exclude)*/tests/*' > {wt}/change.patch`, revert it with `git apply -R {wt}/change.patch` (keep the test), run the demo again to see it pass, and re-apply with `git apply {wt}/change.patch`. Do NOT use `git stash`: the stash is shared between worktrees of the same repository and other people are working in sibling worktrees.
  3. a file `{wt}/SEED_NOTES.md` stating: which part of the property is broken, what exactly is needed for the breakage to manifest, the commands you ran and their outcomes (existing suite passes with the change; demo fails with the change and passes without).

Before finishing, re-run the full existing suite one final time with your change applied and confirm that every pre-existing test passes. Do not commit anything. In your final answer, summarise the change (file, function, what it does), what is needed to trigger it, and the path of the demo test.""")
