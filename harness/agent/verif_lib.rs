// C16 (stream reassembly) and C09 (agent-side protected iterator).  Child module of stun-agent/src/lib.rs.
#![allow(dead_code, unused_imports)]
use super::*;
use crate::support_time::nofmt;

// =============================================================================================
// C16: StunPacketDecoder — one packet at the head of a stream of STREAM bytes (the bytes after the
// packet belong to the next packet: they must not be consumed), buffer of BUF bytes, NCUT symbolic
// cut positions (empty chunks allowed).  Reference outcome per chunk is computed from `seen`.
// =============================================================================================
#[derive(Clone, Copy, PartialEq, Eq)]
enum Exp {
    More(Option<usize>),
    Decoded(usize),
    ErrInvalid(usize),
    ErrSmall(usize),
}

fn expected(seen: usize, n: usize, hdr_ok: bool, total: usize, buf: usize) -> Exp {
    if seen < 20 {
        if seen + n < 20 {
            Exp::More(None)
        } else if !hdr_ok {
            Exp::ErrInvalid(20 - seen)
        } else if total > buf {
            Exp::ErrSmall(20 - seen)
        } else if seen + n >= total {
            Exp::Decoded(total - seen)
        } else {
            Exp::More(Some(total - seen - n))
        }
    } else if seen + n >= total {
        Exp::Decoded(total - seen)
    } else {
        Exp::More(Some(total - seen - n))
    }
}

fn c16_chunks<const BUF: usize, const STREAM: usize, const MAXL: usize, const NCUT: usize, const FORCE_VALID: bool>() {
    let mut stream: [u8; STREAM] = kani::any();
    let l: usize = kani::any();
    kani::assume(l <= MAXL);
    stream[2] = 0;
    stream[3] = l as u8;
    if FORCE_VALID {
        stream[0] &= 0x3f;
        stream[4] = 0x21;
        stream[5] = 0x12;
        stream[6] = 0xa4;
        stream[7] = 0x42;
    }
    let hdr_ok = (stream[0] & 0xc0) == 0 && stream[4] == 0x21 && stream[5] == 0x12 && stream[6] == 0xa4 && stream[7] == 0x42;
    let total = 20 + l;
    // cut positions 0 <= c[0] <= c[1] .. <= STREAM
    let mut cuts = [STREAM; 4];
    let mut i = 0;
    let mut prev = 0usize;
    while i < NCUT {
        let c: usize = kani::any();
        kani::assume(c >= prev && c <= STREAM);
        cuts[i] = c;
        prev = c;
        i += 1;
    }
    let j: usize = kani::any(); // "for all byte indices" without a compare loop
    kani::assume(j < STREAM);
    let mut dec = match StunPacketDecoder::new(vec![0u8; BUF]) {
        Ok(d) => d,
        Err(_) => {
            assert!(BUF < 20);
            return;
        }
    };
    let mut seen = 0usize;
    let mut start = 0usize;
    let mut k = 0;
    while k <= NCUT {
        let end = if k < NCUT { cuts[k] } else { STREAM };
        let n = end - start;
        let exp = expected(seen, n, hdr_ok, total, BUF);
        match dec.decode(&stream[start..end]) {
            Ok(StunPacketDecodedValue::Decoded((p, consumed))) => {
                assert!(exp == Exp::Decoded(consumed), "C16: packet complete exactly when its last byte arrived; consumed count exact");
                assert!(p.len() == total, "C16: packet length");
                if j < total {
                    assert!(p[j] == stream[j], "C16: packet bytes identical to the stream");
                }
                kani::cover!(k == NCUT && consumed < n);
                std::mem::forget(p);
                return;
            }
            Ok(StunPacketDecodedValue::MoreBytesNeeded((d, missing))) => {
                assert!(exp == Exp::More(missing), "C16: missing-byte count exact once the header was seen, None before");
                seen += n;
                dec = d;
            }
            Err(e) => {
                let small = matches!(e.error_type, StunPacketErrorType::SmallBuffer);
                if small {
                    assert!(exp == Exp::ErrSmall(e.consumed), "C16: SmallBuffer exactly at the chunk completing the header of an oversized packet");
                } else {
                    assert!(exp == Exp::ErrInvalid(e.consumed), "C16: InvalidStunPacket exactly at the chunk completing a bad header");
                }
                assert!(e.size == 20 && e.buffer.len() == BUF, "C16: buffer handed back");
                if j < 20 {
                    assert!(e.buffer[j] == stream[j]);
                }
                if BUF < 20 + MAXL {
                    kani::cover!(small && k > 0);
                }
                if !FORCE_VALID {
                    kani::cover!(!small && k > 0);
                }
                std::mem::forget(e);
                return;
            }
        }
        start = end;
        k += 1;
    }
    // all chunks fed without a result: the stream is longer than the packet, so this is impossible
    assert!(false, "C16: no result although the whole packet was supplied");
}

macro_rules! c16_inst {
    ($($name:ident = ($buf:expr, $stream:expr, $maxl:expr, $ncut:expr, $valid:expr) unwind $u:expr;)*) => {$(
        #[kani::proof]
        #[kani::unwind($u)]
        #[kani::stub(alloc::fmt::format, nofmt)]
        fn $name() { c16_chunks::<$buf, $stream, $maxl, $ncut, $valid>(); }
    )*};
}
c16_inst! {
    // buffer fits every packet / exactly some / too small for some; one cut
    c16_buf28_s26_l4_cut1 = (28, 26, 4, 1, true) unwind 27;
    c16_buf24_s26_l4_cut1 = (24, 26, 4, 1, true) unwind 27;
    c16_buf22_s26_l4_cut1 = (22, 26, 4, 1, true) unwind 27;
    c16_buf20_s24_l4_cut1 = (20, 24, 4, 1, true) unwind 25;
    c16_buf24_s24_l4_cut1_anyhdr = (24, 24, 4, 1, false) unwind 25;
    // two cuts (three chunks, empty chunks included)
    c16_buf24_s26_l4_cut2 = (24, 26, 4, 2, true) unwind 27;
    c16_buf22_s26_l4_cut2 = (22, 26, 4, 2, true) unwind 27;
    c16_buf22_s24_l4_cut2_anyhdr = (22, 24, 4, 2, false) unwind 25;
    // three cuts on a short stream
    c16_buf22_s24_l4_cut3 = (22, 24, 4, 3, true) unwind 25;
    // longer packets
    c16_buf32_s34_l12_cut1 = (32, 34, 12, 1, true) unwind 35;
    c16_buf26_s34_l12_cut2 = (26, 34, 12, 2, true) unwind 35;
}

// =============================================================================================
// C09 (agent side): ProtectedAttributeIterator yields exactly the subsequence admitted by the
// RFC ordering rule.  Attribute values are cheap real ones (Fingerprint::default etc.).
// =============================================================================================
use stun_rs::attributes::stun::{Fingerprint, MessageIntegrity, MessageIntegritySha256, UnknownAttributes};

fn attr_of_kind(k: u8, key: &stun_rs::HMACKey) -> StunAttribute {
    match k {
        1 => MessageIntegrity::new(key.clone()).into(),
        2 => MessageIntegritySha256::new(key.clone()).into(),
        3 => Fingerprint::default().into(),
        _ => UnknownAttributes::default().into(),
    }
}
