// Harnesses anchored in stun-rs/src/context.rs (child module: private items are reachable).
#![allow(unused_imports, dead_code)]
use super::*;
use crate::support_common::*;

// ---------------------------------------------------------------------------------------------
// C09 kernel: the ordering filter against the rule as stated in the property.
// Reference is written from RFC 8489 §14.5/§14.6/§14.7 with the IANA numbers as literals.
// ---------------------------------------------------------------------------------------------
const T_MI: u16 = 0x0008;
const T_SHA: u16 = 0x001C;
const T_FP: u16 = 0x8028;

fn c09_rule_seq<const N: usize>() {
    let n: usize = kani::any();
    kani::assume(n <= N);
    let types: [u16; N] = kani::any();
    let mut f = AttributeFilter::default();
    let (mut seen_mi, mut seen_sha, mut seen_fp) = (false, false, false);
    let mut admitted_n = 0usize;
    let mut i = 0;
    while i < n {
        let t = types[i];
        let ignored = ignore_attribute(&mut f, AttributeType::from(t));
        let admitted = if t == T_MI {
            !(seen_mi || seen_sha || seen_fp)
        } else if t == T_SHA {
            !(seen_sha || seen_fp)
        } else if t == T_FP {
            !seen_fp
        } else {
            !(seen_mi || seen_sha || seen_fp)
        };
        if t == T_MI {
            seen_mi = true;
        } else if t == T_SHA {
            seen_sha = true;
        } else if t == T_FP {
            seen_fp = true;
        }
        assert!(ignored == !admitted, "C09: filter verdict differs from the RFC ordering rule");
        if admitted {
            admitted_n += 1;
        }
        i += 1;
    }
    kani::cover!(n == N && seen_mi && seen_sha && seen_fp && admitted_n >= 3);
    kani::cover!(n >= 2 && admitted_n < n);
}

#[kani::proof]
#[kani::unwind(10)]
fn c09_rule_seq8() {
    c09_rule_seq::<8>();
}

#[kani::proof]
#[kani::unwind(14)]
fn c09_rule_seq12() {
    c09_rule_seq::<12>();
}

// type codes of the three special kinds are the IANA numbers the reference uses
#[kani::proof]
fn c09_type_codes() {
    assert!(MessageIntegrity::get_type().as_u16() == T_MI);
    assert!(MessageIntegritySha256::get_type().as_u16() == T_SHA);
    assert!(Fingerprint::get_type().as_u16() == T_FP);
}

// =============================================================================================
// C18 / C09 / C03 at message level: the real MessageDecoder::decode on a buffer with a fixed
// slot layout and symbolic contents.
//   layout (60 bytes): header | slot0 (8) | block (24) | slot1 (8)
//   slot  = type in S = {FINGERPRINT 0x8028, PRIORITY 0x0024, unknown 0x7F02},
//           length 4, 4 symbolic value bytes
//   block = MESSAGE-INTEGRITY 0x0008 or unknown 0x7F04 (length 20), concrete per instance
// The registry is the 4-kind restriction of the generated one (agreement on S asserted below).
// =============================================================================================
use crate::attributes::{AttributeType as AT, DecodeAttributeValue};
use crate::registry::DecoderHandler;

fn h_mi(ctx: AttributeDecoderContext) -> Result<(StunAttribute, usize), StunError> {
    let (v, s) = <MessageIntegrity as DecodeAttributeValue>::decode(ctx)?;
    Ok((v.into(), s))
}
fn h_sha(ctx: AttributeDecoderContext) -> Result<(StunAttribute, usize), StunError> {
    let (v, s) = <MessageIntegritySha256 as DecodeAttributeValue>::decode(ctx)?;
    Ok((v.into(), s))
}
fn h_fp(ctx: AttributeDecoderContext) -> Result<(StunAttribute, usize), StunError> {
    let (v, s) = <Fingerprint as DecodeAttributeValue>::decode(ctx)?;
    Ok((v.into(), s))
}
fn h_prio(ctx: AttributeDecoderContext) -> Result<(StunAttribute, usize), StunError> {
    let (v, s) = <crate::attributes::ice::Priority as DecodeAttributeValue>::decode(ctx)?;
    Ok((v.into(), s))
}
static H_MI: DecoderHandler = h_mi;
static H_SHA: DecoderHandler = h_sha;
static H_FP: DecoderHandler = h_fp;
static H_PRIO: DecoderHandler = h_prio;
fn registry_small(t: AT) -> Option<&'static DecoderHandler> {
    match t.as_u16() {
        0x0008 => Some(&H_MI),
        0x001c => Some(&H_SHA),
        0x8028 => Some(&H_FP),
        0x0024 => Some(&H_PRIO),
        _ => None,
    }
}

#[kani::proof]
#[kani::unwind(42)]
fn c18_registry_small_agrees() {
    use crate::verif_registry::registry_from_source;
    for t in [0x0008u16, 0x001c, 0x8028, 0x0024] {
        assert!(registry_from_source(AT::from(t)).is_some(), "kind registered in the working tree");
    }
    for t in [0x7f02u16, 0xff03, 0x7f04] {
        assert!(registry_from_source(AT::from(t)).is_none(), "unknown code really is unknown");
    }
}

// two layouts (concrete per instance):
//   LAYOUT 0 (36 bytes): header | slot (8) | slot (8)
//   LAYOUT 1 (52 bytes): header | block (24) | slot (8)
const NA: usize = 2;
struct Wire<const L: usize> {
    buf: [u8; L],
    types: [u16; NA],
    offs: [usize; NA],
    lens: [u8; NA],
}
fn slot_type() -> u16 {
    let k: u8 = kani::any();
    kani::assume(k < 3);
    match k {
        0 => 0x8028,
        1 => 0x0024,
        _ => 0x7f02,
    }
}
fn any_wire<const L: usize>(block_mi: bool) -> Wire<L> {
    let mut buf: [u8; L] = kani::any();
    put_header(&mut buf, (L - 20) as u16);
    concrete_type(&mut buf);
    let (types, offs, lens) = if L == 36 {
        ([slot_type(), slot_type()], [20usize, 28], [4u8, 4])
    } else {
        ([if block_mi { 0x0008 } else { 0x7f04 }, slot_type()], [20usize, 44], [20u8, 4])
    };
    let mut i = 0;
    while i < NA {
        buf[offs[i]] = (types[i] >> 8) as u8;
        buf[offs[i] + 1] = types[i] as u8;
        buf[offs[i] + 2] = 0;
        buf[offs[i] + 3] = lens[i];
        i += 1;
    }
    Wire { buf, types, offs, lens }
}
fn kind(t: u16) -> u8 {
    if t == T_MI { 1 } else if t == T_SHA { 2 } else if t == T_FP { 3 } else { 0 }
}
/// C09 rule on the wire attributes: which are admitted
fn admitted(types: &[u16; NA]) -> [bool; NA] {
    let (mut mi, mut sha, mut fp) = (false, false, false);
    let mut out = [false; NA];
    let mut i = 0;
    while i < NA {
        let k = kind(types[i]);
        out[i] = match k {
            1 => !(mi || sha || fp),
            2 => !(sha || fp),
            3 => !fp,
            _ => !(mi || sha || fp),
        };
        match k {
            1 => mi = true,
            2 => sha = true,
            3 => fp = true,
            _ => {}
        }
        i += 1;
    }
    out
}

// The decoded attributes are observed through a recording stub of StunMessageBuilder::with_attribute
// (type code, and for Unknown the raw data) instead of through the built message: moving the real
// ~150-byte StunAttribute enum into the message's Vec is what made even the 36-byte decode need
// 11 GB.  The decode loop, the filter, the handlers and validate_attribute are the real code.
#[derive(Clone, Copy)]
struct RecAttr {
    code: u16,
    has_data: bool,
    dlen: usize,
    d0: u8,
    d3: u8,
}
static mut REC_ATTRS: [RecAttr; 4] = [RecAttr { code: 0, has_data: false, dlen: 0, d0: 0, d3: 0 }; 4];
static mut REC_N: usize = 0;
fn rec_with_attribute<T: Into<StunAttribute>>(b: StunMessageBuilder, attribute: T) -> StunMessageBuilder {
    let a: StunAttribute = attribute.into();
    rec_one(&a);
    std::mem::forget(a);
    b
}
/// native replay of a counterexample (no stubs): the attributes are read from the real message
fn rec_native<E>(r: &Result<(crate::StunMessage, usize), E>) {
    if crate::verif_cfg::NATIVE_REPLAY {
        if let Ok((m, _)) = r {
            unsafe {
                REC_N = 0;
            }
            for a in m.attributes() {
                rec_one(a);
            }
        }
    }
}
fn rec_one(a: &StunAttribute) {
    let mut r = RecAttr { code: a.attribute_type().as_u16(), has_data: false, dlen: 0, d0: 0, d3: 0 };
    if let StunAttribute::Unknown(u) = a {
        if let Some(d) = u.attribute_data() {
            r.has_data = true;
            r.dlen = d.len();
            if d.len() >= 4 {
                r.d0 = d[0];
                r.d3 = d[3];
            }
        }
    }
    unsafe {
        if REC_N < 4 {
            REC_ATTRS[REC_N] = r;
        }
        REC_N += 1;
    }
}

/// OPT bits: 1 = context present, 2 = not_ignore, 4 = with_unknown_data
fn mk_decoder<const OPT: u8>() -> MessageDecoder {
    if OPT & 1 == 0 {
        return MessageDecoderBuilder::default().build();
    }
    let mut b = DecoderContextBuilder::default();
    if OPT & 2 != 0 {
        b = b.not_ignore();
    }
    if OPT & 4 != 0 {
        b = b.with_unknown_data();
    }
    MessageDecoderBuilder::default().with_context(b.build()).build()
}

fn c18_decode_opt<const OPT: u8, const BLOCK_MI: bool, const L: usize>() {
    let w = any_wire::<L>(BLOCK_MI);
    let dec = mk_decoder::<OPT>();
    unsafe {
        REC_N = 0;
    }
    let r = dec.decode(&w.buf);
    rec_native(&r);
    let adm = if OPT & 2 != 0 { [true; NA] } else { admitted(&w.types) };
    match &r {
        Ok((_m, size)) => {
            assert!(*size == L, "C03: size = 20 + length field");
            let mut want = 0usize;
            let mut i = 0;
            while i < NA {
                if adm[i] {
                    want += 1;
                }
                i += 1;
            }
            assert!(unsafe { REC_N } == want, "C09/C18: exactly the admitted wire attributes are returned (all of them with not_ignore; same without a context as with the default context)");
            let mut j = 0usize;
            let mut i = 0;
            while i < NA {
                if adm[i] {
                    let a = unsafe { REC_ATTRS[j] };
                    assert!(a.code == w.types[i], "C09/C18: wire order preserved");
                    if kind(w.types[i]) == 0 && w.types[i] != 0x0024 {
                        // an unknown attribute
                        let off = w.offs[i] + 4;
                        if OPT & 4 != 0 {
                            assert!(a.has_data && a.dlen == w.lens[i] as usize && a.d0 == w.buf[off] && a.d3 == w.buf[off + 3], "C18: with_unknown_data keeps exactly the raw value bytes");
                        } else {
                            assert!(!a.has_data, "C18: raw data only when asked for");
                        }
                    }
                    j += 1;
                }
                i += 1;
            }
        }
        Err(_) => assert!(false, "C03/C18: a well-formed message decodes under every option set (no validation requested)"),
    }
    kani::cover!(!adm[1]);
    kani::cover!(adm[1]);
    std::mem::forget(r);
    std::mem::forget(dec);
}

macro_rules! c18_inst {
    ($($name:ident = ($o:expr, $b:expr, $l:expr);)*) => {$(
        #[kani::proof]
        #[kani::unwind(8)]
        #[kani::stub(alloc::fmt::format, nofmt)]
        #[kani::stub(<crate::types::TransactionId as std::default::Default>::default, tid_any)]
        #[kani::stub(crate::registry::get_handler, registry_small)]
        #[kani::stub(crate::message::StunMessageBuilder::with_attribute, rec_with_attribute)]
        fn $name() { c18_decode_opt::<$o, $b, $l>(); }
    )*};
}
c18_inst! {
    c18_decode_noctx = (0, true, 36);
    c18_decode_default_ctx = (1, true, 36);
    c18_decode_not_ignore = (3, true, 36);
    c18_decode_unknown_data = (5, true, 36);
    c18_decode_noctx_mi = (0, true, 52);
    c18_decode_default_ctx_mi = (1, true, 52);
    c18_decode_not_ignore_mi = (3, true, 52);
    c18_decode_unknown_block_data = (5, false, 52);
}

// ---------------------------------------------------------------------------------------------
// C18 with CONCRETE attribute types (symbolic values, header, transaction id): the decoder's
// dispatch then folds to one handler per attribute.
//   PATTERN 0: FINGERPRINT, PRIORITY        (36 bytes)
//   PATTERN 1: PRIORITY, FINGERPRINT, unknown 0x7F02 (44 bytes)
// ---------------------------------------------------------------------------------------------
/// The message type is made concrete (Binding request, 0x0001) in the whole-decode queries: with symbolic
/// type bits the header's "top two bits" error path stays feasible for the symbolic executor, its merge
/// with the Ok path makes the header length field symbolic, and from there on nothing constant-folds any
/// more: the attribute loop is unwound to the bound with every registered decoder and the whole drop
/// glue in each iteration (2.3 M steps, 40 M clauses for a 20-byte message).  With a concrete type the
/// same query has 20 k steps.  Method / class decoding is decided for all 16384 pairs by c02_message_type_bits.
fn concrete_type(buf: &mut [u8]) {
    buf[0] = 0x00;
    buf[1] = 0x01;
}
fn c18c<const OPT: u8, const PATTERN: u8, const LL: usize>() {
    let mut buf: [u8; LL] = kani::any();
    put_header(&mut buf, (LL - 20) as u16);
    concrete_type(&mut buf);
    let types: [u16; 3] = if PATTERN == 0 { [0x8028, 0x0024, 0] } else if PATTERN == 2 { [0x7f02, 0, 0] } else { [0x0024, 0x8028, 0x7f02] };
    let n = if PATTERN == 0 { 2 } else if PATTERN == 2 { 1 } else { 3 };
    let mut i = 0;
    while i < n {
        let o = 20 + 8 * i;
        buf[o] = (types[i] >> 8) as u8;
        buf[o + 1] = types[i] as u8;
        buf[o + 2] = 0;
        buf[o + 3] = 4;
        i += 1;
    }
    let dec = mk_decoder::<OPT>();
    unsafe {
        REC_N = 0;
    }
    let r = dec.decode(&buf);
    rec_native(&r);
    assert!(r.is_ok(), "C03/C18: a well-formed message decodes under every option set");
    let recorded = unsafe { REC_N };
    let all = OPT & 2 != 0;
    if PATTERN == 2 {
        // PATTERN 2: one unknown attribute 0x7F02 (28 bytes)
        assert!(recorded == 1);
        let u = unsafe { REC_ATTRS[0] };
        assert!(u.code == 0x7f02);
        if OPT & 4 != 0 {
            assert!(u.has_data && u.dlen == 4 && u.d0 == buf[24] && u.d3 == buf[27], "C18: with_unknown_data keeps exactly the raw value bytes");
        } else {
            assert!(!u.has_data, "C18: raw data only when asked for");
        }
    } else if PATTERN == 0 {
        // PRIORITY after FINGERPRINT is not admitted
        assert!(recorded == if all { 2 } else { 1 }, "C18/C09: default result = admitted subsequence; not_ignore = every wire attribute; no context == default context");
        assert!(unsafe { REC_ATTRS[0].code } == 0x8028);
    } else {
        assert!(recorded == if all { 3 } else { 2 }, "C18/C09: default result = admitted subsequence; not_ignore = every wire attribute; no context == default context");
        assert!(unsafe { REC_ATTRS[0].code } == 0x0024 && unsafe { REC_ATTRS[1].code } == 0x8028);
        if all {
            let u = unsafe { REC_ATTRS[2] };
            assert!(u.code == 0x7f02);
            if OPT & 4 != 0 {
                assert!(u.has_data && u.dlen == 4 && u.d0 == buf[40] && u.d3 == buf[43], "C18: with_unknown_data keeps exactly the raw value bytes");
            } else {
                assert!(!u.has_data, "C18: raw data only when asked for");
            }
        }
    }
    std::mem::forget(r);
    std::mem::forget(dec);
}
macro_rules! c18c_inst {
    ($($name:ident = ($o:expr, $p:expr, $l:expr);)*) => {$(
        #[kani::proof]
        #[kani::unwind(6)]
        #[kani::stub(alloc::fmt::format, nofmt)]
        #[kani::stub(<crate::types::TransactionId as std::default::Default>::default, tid_any)]
        #[kani::stub(crate::registry::get_handler, registry_small)]
        #[kani::stub(crate::message::StunMessageBuilder::with_attribute, rec_with_attribute)]
        fn $name() { c18c::<$o, $p, $l>(); }
    )*};
}
c18c_inst! {
    c18c_noctx_fp_prio = (0, 0, 36);
    c18c_default_fp_prio = (1, 0, 36);
    c18c_not_ignore_fp_prio = (3, 0, 36);
    c18c_noctx_prio_fp_unk = (0, 1, 44);
    c18c_not_ignore_unknown_data = (7, 1, 44);
    c18c_not_ignore_prio_fp_unk = (3, 1, 44);
    c18c_unknown_data_one = (5, 2, 28);
    c18c_unknown_nodata_one = (1, 2, 28);
}

// ---------------------------------------------------------------------------------------------
// C18 / C09, validation switched on: the CRC primitive is replaced by a stub that answers an
// arbitrary verdict per call and counts the calls (Fingerprint::validate), the MAC/CRC input
// selection by a stub returning an empty text (decided on its own in C04/C10).
//   PATTERN 0: FINGERPRINT, PRIORITY   PATTERN 2: FINGERPRINT, FINGERPRINT   (36 bytes)
//   OPT bits: 1 = context, 2 = not_ignore, 8 = with_validation
// Decided: validation only ever turns an Ok into an Err (Ok under validation => the attributes of the
// non-validating decode), exactly the admitted verifiable attributes are validated (all of them with
// not_ignore), none without with_validation.
// ---------------------------------------------------------------------------------------------
pub(crate) static mut VAL_CALLS: usize = 0;
pub(crate) static mut VAL_ANS: [bool; 2] = [false; 2];
pub(crate) fn fp_validate_any(_this: &crate::attributes::stun::Fingerprint, _input: &[u8]) -> bool {
    unsafe {
        let k = VAL_CALLS;
        VAL_CALLS += 1;
        k < 2 && VAL_ANS[k]
    }
}
pub(crate) fn input_text_empty(_buffer: &[u8], _attr_type: u16) -> Result<Vec<u8>, crate::StunError> {
    Ok(Vec::with_capacity(1))
}
fn c18v<const OPT: u8, const PATTERN: u8>() {
    const LL: usize = 36;
    let mut buf: [u8; LL] = kani::any();
    put_header(&mut buf, (LL - 20) as u16);
    concrete_type(&mut buf);
    let types: [u16; 2] = if PATTERN == 0 { [0x8028, 0x0024] } else { [0x8028, 0x8028] };
    let mut i = 0;
    while i < 2 {
        let o = 20 + 8 * i;
        buf[o] = (types[i] >> 8) as u8;
        buf[o + 1] = types[i] as u8;
        buf[o + 2] = 0;
        buf[o + 3] = 4;
        i += 1;
    }
    let ans: [bool; 2] = kani::any();
    let mut b = DecoderContextBuilder::default();
    if OPT & 2 != 0 {
        b = b.not_ignore();
    }
    if OPT & 8 != 0 {
        b = b.with_validation();
    }
    let dec = MessageDecoderBuilder::default().with_context(b.build()).build();
    unsafe {
        REC_N = 0;
        VAL_CALLS = 0;
        VAL_ANS = ans;
    }
    let r = dec.decode(&buf);
    let calls = unsafe { VAL_CALLS };
    let recorded = unsafe { REC_N };
    let all = OPT & 2 != 0;
    let validating = OPT & 8 != 0;
    // what the non-validating decode returns (decided by c18c_* / this function with OPT & 8 == 0)
    let want = if all { 2 } else { 1 };
    // verifiable attributes the ordering rule admits
    let verifiable = if PATTERN == 2 && all { 2 } else { 1 };
    if !validating {
        assert!(calls == 0, "C18: nothing is validated unless asked for");
        assert!(r.is_ok() && recorded == want);
    } else {
        let ok = ans[0] && (verifiable == 1 || ans[1]);
        assert!(r.is_ok() == ok, "C18: validation fails the decode exactly when an admitted attribute does not verify");
        if r.is_ok() {
            assert!(recorded == want, "C18: validation on and Ok => the same attributes as with validation off");
            assert!(calls == verifiable, "C09: exactly the admitted verifiable attributes are validated");
        } else {
            assert!(calls <= verifiable && calls >= 1, "C09: an attribute that is not admitted is never validated");
        }
    }
    if recorded >= 1 {
        assert!(unsafe { REC_ATTRS[0].code } == 0x8028);
    }
    kani::cover!(r.is_ok());
    kani::cover!(validating && r.is_err());
    std::mem::forget(r);
    std::mem::forget(dec);
}
macro_rules! c18v_inst {
    ($($name:ident = ($o:expr, $p:expr);)*) => {$(
        #[kani::proof]
        #[kani::unwind(6)]
        #[kani::stub(alloc::fmt::format, nofmt)]
        #[kani::stub(<crate::types::TransactionId as std::default::Default>::default, tid_any)]
        #[kani::stub(crate::registry::get_handler, registry_small)]
        #[kani::stub(crate::message::StunMessageBuilder::with_attribute, rec_with_attribute)]
        #[kani::stub(crate::attributes::stun::fingerprint::Fingerprint::validate, fp_validate_any)]
        #[kani::stub(crate::raw::get_input_text, input_text_empty)]
        fn $name() { c18v::<$o, $p>(); }
    )*};
}
c18v_inst! {
    c18v_validate_fp_prio = (9, 0);
    c18v_validate_not_ignore_fp_prio = (11, 0);
    c18v_validate_fp_fp = (9, 2);
    c18v_validate_not_ignore_fp_fp = (11, 2);
    c18v_novalidate_fp_fp = (1, 2);
}

// ---------------------------------------------------------------------------------------------
// cost probes (not registered): pieces of MessageDecoder::decode on their own, to see where the
// symbolic execution steps of the whole-decode queries go
// ---------------------------------------------------------------------------------------------
#[kani::proof]
#[kani::unwind(6)]
#[kani::stub(alloc::fmt::format, nofmt)]
fn probe_raw_decode() {
    let mut buf: [u8; 28] = kani::any();
    put_header(&mut buf, 8);
    let r = RawMessage::decode(&buf);
    assert!(r.is_ok());
    std::mem::forget(r);
}
#[kani::proof]
#[kani::unwind(6)]
#[kani::stub(alloc::fmt::format, nofmt)]
#[kani::stub(<crate::types::TransactionId as std::default::Default>::default, tid_any)]
fn probe_builder() {
    let tid: [u8; 12] = kani::any();
    let mt = MessageType::from(kani::any::<u16>());
    let b = StunMessageBuilder::new(mt.method(), mt.class()).with_transaction_id(TransactionId::from(tid));
    let m = b.build();
    assert!(m.attributes().is_empty());
    std::mem::forget(m);
}
#[kani::proof]
#[kani::unwind(6)]
#[kani::stub(alloc::fmt::format, nofmt)]
fn probe_decoder_ctx() {
    let dec = mk_decoder::<5>();
    assert!(dec.get_context().is_some());
    std::mem::forget(dec);
}
#[kani::proof]
#[kani::unwind(6)]
#[kani::stub(alloc::fmt::format, nofmt)]
#[kani::stub(<crate::types::TransactionId as std::default::Default>::default, tid_any)]
#[kani::stub(crate::registry::get_handler, registry_small)]
#[kani::stub(crate::message::StunMessageBuilder::with_attribute, rec_with_attribute)]
fn probe_decode_header_only() {
    let mut buf: [u8; 20] = kani::any();
    put_header(&mut buf, 0);
    let dec = mk_decoder::<0>();
    let r = dec.decode(&buf);
    assert!(r.is_ok());
    std::mem::forget(r);
    std::mem::forget(dec);
}

// ---------------------------------------------------------------------------------------------
// C10 / C04 / C09 at whole-decode level: WHAT the validating decoder hands to the MAC / CRC check.
// Message (60 bytes): header | MESSAGE-INTEGRITY (20-byte value) | unknown 0x7F02 with a 3-byte value
// + 1 padding byte (not admitted after MESSAGE-INTEGRITY: ignored) | FINGERPRINT.
// Real MessageDecoder::decode with with_validation, real input selection (raw::get_input_text or whatever
// the decoder uses); the two primitives are recording stubs: <MessageIntegrity as Verifiable>::verify and
// Fingerprint::validate note the length of the text they are given, its bytes 2..4 and the byte at one
// symbolic index, and answer an arbitrary verdict.  Decided: the MAC text is the message up to the
// MESSAGE-INTEGRITY attribute with the length field covering it, the CRC text the message up to the
// FINGERPRINT (padding of the ignored attribute included) with the length field covering it; the
// ignored attribute is not returned; a verdict "no" fails the decode.
// ---------------------------------------------------------------------------------------------
#[derive(Clone, Copy)]
struct TextRec {
    calls: usize,
    len: usize,
    b2: u8,
    b3: u8,
    at_j: u8,
}
static mut MI_TEXT: TextRec = TextRec { calls: 0, len: 0, b2: 0, b3: 0, at_j: 0 };
static mut FP_TEXT: TextRec = TextRec { calls: 0, len: 0, b2: 0, b3: 0, at_j: 0 };
static mut TEXT_J: usize = 0;
static mut TEXT_ANS: [bool; 2] = [false; 2];
fn note(r: &mut TextRec, input: &[u8]) {
    r.calls += 1;
    r.len = input.len();
    if input.len() >= 4 {
        r.b2 = input[2];
        r.b3 = input[3];
    }
    let j = unsafe { TEXT_J };
    if j < input.len() {
        r.at_j = input[j];
    }
}
fn mi_verify_rec(_this: &MessageIntegrity, input: &[u8], _ctx: &DecoderContext) -> bool {
    unsafe {
        note(&mut *std::ptr::addr_of_mut!(MI_TEXT), input);
        TEXT_ANS[0]
    }
}
fn fp_validate_rec(_this: &Fingerprint, input: &[u8]) -> bool {
    unsafe {
        note(&mut *std::ptr::addr_of_mut!(FP_TEXT), input);
        TEXT_ANS[1]
    }
}
fn c10v<const NOT_IGNORE: bool>() {
    const LL: usize = 60;
    let mut buf: [u8; LL] = kani::any();
    put_header(&mut buf, (LL - 20) as u16);
    concrete_type(&mut buf);
    // MESSAGE-INTEGRITY at 20 (4 + 20), unknown at 44 (4 + 3 + 1 pad), FINGERPRINT at 52 (4 + 4)
    buf[20] = 0x00;
    buf[21] = 0x08;
    buf[22] = 0;
    buf[23] = 20;
    buf[44] = 0x7f;
    buf[45] = 0x02;
    buf[46] = 0;
    buf[47] = 3;
    buf[52] = 0x80;
    buf[53] = 0x28;
    buf[54] = 0;
    buf[55] = 4;
    let j: usize = kani::any();
    let ans: [bool; 2] = kani::any();
    unsafe {
        REC_N = 0;
        MI_TEXT.calls = 0;
        FP_TEXT.calls = 0;
        TEXT_J = j;
        TEXT_ANS = ans;
    }
    let mut b = DecoderContextBuilder::default().with_validation();
    if NOT_IGNORE {
        b = b.not_ignore();
    }
    let dec = MessageDecoderBuilder::default().with_context(b.build()).build();
    let r = dec.decode(&buf);
    let (mi, fp) = unsafe { (MI_TEXT, FP_TEXT) };
    assert!(mi.calls == 1, "C04: the admitted MESSAGE-INTEGRITY is verified once");
    assert!(mi.len == 20, "C04: MAC text = the message up to the MESSAGE-INTEGRITY attribute");
    assert!(mi.b2 == 0 && mi.b3 == 24, "C04: length field of the MAC text covers the integrity attribute (24 bytes), nothing after it");
    if j < 20 && j != 2 && j != 3 {
        assert!(mi.at_j == buf[j], "C04: every other byte of the protected prefix is authenticated as received");
    }
    if ans[0] {
        assert!(fp.calls == 1, "C10: the admitted FINGERPRINT is checked once");
        assert!(fp.len == 52, "C10: CRC text = the message up to the FINGERPRINT attribute, padding of the attribute before it included");
        assert!(fp.b2 == 0 && fp.b3 == 40, "C10: length field of the CRC text covers the FINGERPRINT attribute");
        if j < 52 && j != 2 && j != 3 {
            assert!(fp.at_j == buf[j], "C10: every other byte before the FINGERPRINT is covered as received");
        }
        assert!(r.is_ok() == ans[1], "C10: a FINGERPRINT that does not verify fails the decode");
    } else {
        assert!(r.is_err(), "C04: a MESSAGE-INTEGRITY that does not verify fails the decode");
    }
    if r.is_ok() {
        let n = unsafe { REC_N };
        assert!(n == if NOT_IGNORE { 3 } else { 2 }, "C09: the attribute after MESSAGE-INTEGRITY is not returned (unless not_ignore)");
        assert!(unsafe { REC_ATTRS[0].code } == 0x0008);
        assert!(unsafe { REC_ATTRS[n - 1].code } == 0x8028);
    }
    kani::cover!(r.is_ok());
    kani::cover!(ans[0] && r.is_err());
    std::mem::forget(r);
    std::mem::forget(dec);
}
macro_rules! c10v_inst {
    ($($name:ident = $ni:expr;)*) => {$(
        #[kani::proof]
        #[kani::unwind(6)]
        #[kani::stub(alloc::fmt::format, nofmt)]
        #[kani::stub(<crate::types::TransactionId as std::default::Default>::default, tid_any)]
        #[kani::stub(crate::registry::get_handler, registry_small)]
        #[kani::stub(crate::message::StunMessageBuilder::with_attribute, rec_with_attribute)]
        #[kani::stub(<crate::attributes::stun::MessageIntegrity as crate::attributes::Verifiable>::verify, mi_verify_rec)]
        #[kani::stub(crate::attributes::stun::fingerprint::Fingerprint::validate, fp_validate_rec)]
        fn $name() { c10v::<$ni>(); }
    )*};
}
c10v_inst! {
    c10v_mi_ignored_fp = false;
    c10v_mi_kept_fp_not_ignore = true;
}
