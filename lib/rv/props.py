"""Property table: which solver queries decide which property (DESIGN §3)."""
from .driver import Harness as H

NOFMT = "alloc::fmt::format -> nofmt (error texts outside the claim)"

PROPS = {}
META = {}


def prop(pid, harnesses, outside="", assumptions=()):
    PROPS[pid] = harnesses
    META[pid] = {"outside": outside, "assumptions": list(assumptions)}


CTX = "context::verif_context::"

prop("C09", [
    H("stunrs", CTX + "c09_type_codes", timeout=120, mem_gb=2, covers=0,
      bounds="constants", funcs=["MessageIntegrity::get_type", "MessageIntegritySha256::get_type", "Fingerprint::get_type"],
      sample="type codes 0x0008 / 0x001C / 0x8028"),
    H("stunrs", CTX + "c09_rule_seq8", timeout=300, mem_gb=4, covers=2,
      bounds="all sequences of <= 8 attribute type codes, each an arbitrary u16 (65536^8 sequences incl. all 87,380 kind sequences)",
      funcs=["context::ignore_attribute", "context::AttributeFilter"],
      sample="types=[0x0006,0x0008,0x001C,0x8028,0x8028,0x8022,0x0008,0x001C] -> admitted 1,1,1,1,0,0,0,0"),
    H("stunrs", CTX + "c09_rule_seq12", tier="thorough", timeout=900, mem_gb=6, covers=2,
      bounds="all sequences of <= 12 attribute type codes, each an arbitrary u16",
      funcs=["context::ignore_attribute", "context::AttributeFilter"]),
], outside="sequences longer than 12 attributes")

# ---------------------------------------------------------------------------------------------
# MANIFEST texts
# ---------------------------------------------------------------------------------------------
DESCR = {
    "C09": {
        "level": "Bounded model checking of the real ordering filter (context::ignore_attribute) against the rule as stated in the property, for every sequence of <= 8 (thorough: 12) arbitrary 16-bit attribute type codes; within that bound the SAT verdict covers all sequences, beyond it nothing is claimed.",
        "note": "Trusted: Kani/CBMC/CaDiCaL, the reference rule written in the harness from RFC 8489 with literal IANA type numbers.",
    },
}

_PENDING = "check not built yet in this round; see DESIGN.md §3 for the plan"
NOT_APPLICABLE = {p: _PENDING for p in ["C%02d" % i for i in range(1, 20)]}

VAL = "verif_values::"
NONCE = "attributes::stun::nonce::verif_nonce::"
QS_STRUCT = "quoted-string grammar not run: Nonce built directly from structurally assembled text on which trimming is the identity (over-approximation: any such text may be a nonce)"
QS = "quoted_string_parser::QuotedStringParser::validate -> qs_any (arbitrary verdict: over-approximates the pest grammar)"
prop("C19", [
    H("stunrs", VAL + "c19_message_types_total", timeout=300, mem_gb=3, covers=0, stubs=[NOFMT],
      bounds="all u16 / u8 arguments", funcs=["MessageType::from<u16>", "MessageType::as_u16", "MessageMethod::try_from", "MessageClass::try_from", "MessageType::encode", "AttributeType::*", "AlgorithmId::from", "AddressFamily::try_from"]),
    H("stunrs", VAL + "c19_error_code_total", timeout=300, mem_gb=3, covers=1, stubs=[NOFMT],
      bounds="all u16 error codes, fixed 3-byte reason", funcs=["types::ErrorCode::new/class/number/reason"]),
] + [
    H("stunrs", VAL + "c19_password_algorithms_clone_" + n, timeout=900, mem_gb=10, covers=None, stubs=[NOFMT],
      bounds="PasswordAlgorithms (%s), clone, one add on the %s, arbitrary algorithm ids" % (("holding one algorithm" if "one" in n else "empty"), ("original" if n.endswith("orig") else "clone")),
      funcs=["PasswordAlgorithms::add/clone/password_algorithms"]) for n in ("empty_orig", "empty_copy")  # the non-empty instances (Arc::make_mut deep-copies the Vec) exhaust 18 GB: not registered
] + [
    H("stunrs", VAL + "c19_password_algorithms_into_iter_shared_" + n, tier=t, timeout=900, mem_gb=10, covers=None, stubs=[NOFMT],
      bounds="PasswordAlgorithms (%s) with a live clone; the consuming into_iter on either copy" % ("one algorithm" if n == "one" else "empty"),
      funcs=["<PasswordAlgorithms as IntoIterator>::into_iter", "PasswordAlgorithms::clone/from<Vec>/password_algorithms"]) for (n, t) in (("empty", "quick"), ("one", "quick"))
] + [
    H("stunrs", VAL + "c19_unknown_attributes_clone_mutate", timeout=300, mem_gb=4, covers=1, stubs=[NOFMT],
      bounds="1 element, clone, one add on either copy, arbitrary u16 values",
      funcs=["UnknownAttributes::add/clone/attributes"]),
] + [
    H("stunrs", NONCE + "c19_nonce_cookie_k%d_c%d" % (k, c), timeout=900, mem_gb=8, covers=None, stubs=[NOFMT, QS_STRUCT],
      tier="quick" if (k, c) in ((1, 1), (2, 1), (3, 1)) else "thorough",
      bounds="nonce = 'obMatJos2' + %d printable ASCII chars + U+00%s lead char + %d continuation char(s) U+0080..BF (each 2 UTF-8 bytes, the sequences the real quoted-string grammar admits) + 'xyz'" % (k, "C0..DF" if c == 1 else "E0..EF", c),
      funcs=["Nonce::is_nonce_cookie", "Nonce::security_features"],
      sample="'obMatJos2' 'aaa' U+00C3 U+00A9 'xyz'")
    for (k, c) in ((0, 1), (1, 1), (2, 1), (3, 1), (4, 1), (0, 2), (1, 2))
] + [
    H("stunrs", NONCE + "c19_nonce_cookie_ascii_k%d" % k, timeout=900, mem_gb=8, covers=(0 if k < 4 else 2), stubs=[NOFMT, QS_STRUCT],
      tier="quick" if k == 4 else "thorough",
      bounds="nonce = 'obMatJos2' + %d arbitrary printable ASCII chars (base64 and non-base64 flag characters)" % k,
      funcs=["Nonce::is_nonce_cookie", "Nonce::security_features"]) for k in (3, 4, 6)
], outside="strings longer than 18 bytes; PRECIS on non-ASCII input; public functions not listed in functions_encoded")
DESCR["C19"] = {
    "level": "Bounded model checking of the value types' public constructors/accessors/conversions over their whole integer domains, of clone-then-mutate sequences on the Arc-backed types, and of the nonce-cookie accessors on structurally assembled multi-byte strings; absence of any reachable panic/overflow/slice failure is what CBMC checks.",
    "note": "Trusted: Kani/CBMC; qs_any over-approximates the quoted-string grammar (counterexamples through it are model-level and are confirmed by a native replay before a fix is made); error texts stubbed (nofmt).",
}

TMO = "timeout::verif_timeout::"
CDS = "std::time::Instant::checked_duration_since -> non-recursive stub computing the same function"
_c06 = [H("agent", TMO + "c06_default_chain", timeout=300, mem_gb=4, covers=0, stubs=[CDS],
          bounds="defaults (500 ms, Rm 16, Rc 7), on-time calls", funcs=["RtoManager::next_rto", "RtoCalculator::next_rto"])]
for (rto, rc) in ((500, 7), (500, 1), (3000, 3)):
    _c06.append(H("agent", TMO + "c06_first_rto%d_rc%d" % (rto, rc), timeout=300, mem_gb=4, covers=0, stubs=[CDS],
                  bounds="RTO=%d ms, Rc=%d, Rm symbolic 1..32, first call at an arbitrary instant" % (rto, rc),
                  funcs=["RtoManager::new", "RtoManager::next_rto"]))
for (rto, rc, i, tier) in ([(500, 7, i, "quick" if i < 7 else "thorough") for i in range(1, 8)] + [(500, 1, 1, "quick"), (500, 2, 1, "quick"), (500, 2, 2, "quick"),
                           (1, 4, 1, "thorough"), (1, 4, 3, "thorough"), (3000, 3, 1, "thorough"), (3000, 3, 2, "quick"), (3000, 3, 3, "thorough"),
                           (500, 10, 1, "thorough"), (500, 10, 5, "thorough"), (500, 10, 9, "thorough"), (500, 10, 10, "thorough"),
                           (100, 5, 1, "thorough"), (100, 5, 3, "thorough"), (100, 5, 5, "thorough"), (250, 4, 2, "thorough"), (250, 4, 4, "thorough")]):
    _c06.append(H("agent", TMO + "c06_step_rto%d_rc%d_i%d" % (rto, rc, i), tier=tier, timeout=2400 if rc == 10 else 600, mem_gb=6, covers=(2 if i == rc else 3), stubs=[CDS],
                  bounds="inductive step: RTO=%d ms, Rc=%d, Rm symbolic 1..32, arbitrary pre-state with slot index %d (latest/last_rto symbolic, latest+last_rto = D_%d), one call at any later instant within 700 s" % (rto, rc, i, i),
                  funcs=["RtoManager::next_rto", "RtoCalculator::next_rto"],
                  sample="pre: latest=t0+1.2s,last_rto=0.3s (D_2=1.5s); call at t0+4.0s -> Some(3.5s... D_4=7.5s-4.0s)"))
prop("C06", _c06, outside="RTO values other than 1/100/250/500/3000 ms (the schedule is linear in RTO), Rc > 10, client-level observation of the schedule (see C05/C11 glue harnesses)",
     assumptions=["timer calls are made at non-decreasing instants (monotonic clock)"])
DESCR["C06"] = {
    "level": "Bounded model checking of the real RtoManager/RtoCalculator: base case (first call) plus one inductive step from an arbitrary state satisfying the schedule invariant, with the call instant, the previous call instant and Rm symbolic, against a closed-form RFC 8489 schedule; histories of any length follow by induction for the instantiated (RTO, Rc).",
    "note": "Trusted: Kani/CBMC; Instant built by transmute of (sec,nsec); Instant subtraction replaced by a non-recursive stub computing the same function; RTO and Rc concretised per instance (listed in evidence).",
}

LIBH = "verif_lib::"
_c16 = []
for (name, tier, to, mem) in (("c16_buf28_s26_l4_cut1", "quick", 900, 10), ("c16_buf24_s26_l4_cut1", "quick", 900, 10), ("c16_buf22_s26_l4_cut1", "quick", 900, 10),
                   ("c16_buf20_s24_l4_cut1", "quick", 900, 10), ("c16_buf24_s24_l4_cut1_anyhdr", "quick", 900, 10),
                   ("c16_buf24_s26_l4_cut2", "thorough", 2400, 14), ("c16_buf22_s26_l4_cut2", "thorough", 1500, 14), ("c16_buf22_s24_l4_cut2_anyhdr", "thorough", 2400, 14),
                   ("c16_buf22_s24_l4_cut3", "thorough", 3000, 16), ("c16_buf32_s34_l12_cut1", "thorough", 2400, 14), ("c16_buf26_s34_l12_cut2", "thorough", 3000, 16)):
    m = __import__("re").match(r"c16_buf(\d+)_s(\d+)_l(\d+)_cut(\d)(_anyhdr)?", name)
    _cov = 1 + (1 if int(m.group(1)) < 20 + int(m.group(3)) else 0) + (1 if m.group(5) else 0)
    _c16.append(H("agent", LIBH + name, tier=tier, timeout=to, mem_gb=mem, covers=_cov, stubs=[NOFMT],
                  bounds="buffer %s bytes, stream %s symbolic bytes (one packet with symbolic length field 0..%s followed by bytes of the next packet), %s symbolic cut position(s) incl. empty chunks, header %s" % (m.group(1), m.group(2), m.group(3), m.group(4), "arbitrary (bad cookie/bits included)" if m.group(5) else "valid"),
                  funcs=["StunPacketDecoder::new", "StunPacketDecoder::decode", "stun_rs::MessageHeader::try_from"],
                  sample="stream=hdr(len=3)+3+3 bytes, cuts=[7,21], buffer 22 -> More(None), SmallBuffer(consumed 13)"))
prop("C16", _c16, outside="packets with more than 12 attribute bytes, more than 3 cuts, buffers larger than 32 bytes; several packets are covered only through 'bytes after the packet are not consumed' (each packet needs a fresh decoder by API design)")
DESCR["C16"] = {
    "level": "Bounded model checking of the real StunPacketDecoder: for concrete small buffer/stream sizes, all packet contents, all length fields and all positions of 1-3 cuts are decided by one SAT query per size instance against a reference outcome function.",
    "note": "Trusted: Kani/CBMC; sizes concrete per instance (listed in evidence); error texts stubbed.",
}

RTT = "rtt::verif_rtt::"
MULF = "core::time::Duration::mul_f32 -> exact-arithmetic contract for the factors 0.125/0.25/0.75/0.875/4.0, arbitrary result for any other factor (f32 is out of the solver's reach)"
prop("C15", [
    H("agent", RTT + "c15_first_sample", timeout=600, mem_gb=6, covers=2, stubs=[MULF], bounds="configured RTO <= 10 s, G <= 100 ms, R <= 1.5 s, all nanosecond values", funcs=["RttCalcuator::new/update/rto"]),
    H("agent", RTT + "c15_later_sample_step", timeout=900, mem_gb=8, covers=3, stubs=[MULF], bounds="arbitrary estimator state SRTT, RTTVAR <= 1.5 s, G <= 100 ms, sample R <= 1.5 s", funcs=["RttCalcuator::update"]),
    H("agent", RTT + "c15_reset_then_first_sample", timeout=900, mem_gb=8, covers=0, stubs=[MULF], bounds="new, one sample, reset, one sample; all values symbolic", funcs=["RttCalcuator::reset/update"]),
    H("agent", RTT + "c15_two_samples_api", timeout=900, mem_gb=8, covers=0, stubs=[MULF], bounds="new, two samples through the public API; all values symbolic", funcs=["RttCalcuator::update"]),
], outside="single-precision rounding of Duration::mul_f32 (std) and its accumulation over many samples; the client-side feeding rules (Karn, 600 s staleness) are decided in the agent-slice glue harnesses when present",
     assumptions=["Duration::mul_f32(x, c) = floor(x*c) for the five RFC constants (within 1e-5 relative + 1 us of std's f32 result, which is the property's tolerance)"])
DESCR["C15"] = {
    "level": "Bounded model checking of the real RttCalcuator integer structure (which quantities are combined, in which order, with which constants) for all nanosecond values of state, sample and granularity in range, with std's f32 multiply replaced by its exact contract.",
    "note": "Trusted: Kani/CBMC; the mul_f32 contract stub; floating-point rounding is outside the claim.",
}

_c11 = []
for (nm, n, tier, to) in (("next", 0, "quick", 300), ("next", 1, "quick", 600), ("next", 2, "quick", 900), ("next", 3, "thorough", 1800),
                          ("check", 1, "quick", 600), ("check", 2, "quick", 900), ("check", 3, "thorough", 1800),
                          ("remove", 1, "thorough", 3000), ("remove", 2, "thorough", 3600)):
    _c11.append(H("agent", TMO + "c11_%s_n%d" % (nm, n), tier=tier, timeout=to, mem_gb=10, covers=(0 if n == 0 else 1), stubs=[CDS],
          bounds="queue built by %d add() calls with arbitrary (instant, timeout <= 100 s, id in 0..3), then one %s at an arbitrary instant" % (n, {"next": "next_timeout(t)", "check": "check(t)", "remove": "remove(id)"}[nm]),
          funcs=["StunMessageTimeout::add/remove/next_timeout/check", "TimeoutItem::cmp"]))
prop("C11", _c11, outside="more than 3 queued deadlines; the client-side emission of the notification (glue harness) and the composition argument of DESIGN §3 C11",
     assumptions=["ids are distinguished by their first byte only in the harness (12 equal bytes)"])
DESCR["C11"] = {
    "level": "Bounded model checking of the real deadline queue (StunMessageTimeout over std BinaryHeap) for queues of up to 3 arbitrary entries and one arbitrary operation at an arbitrary instant: the entry named is one with the earliest deadline, the remaining time saturates at zero, check() pops exactly the due entries.",
    "note": "Kernel-level claim: the notification content is what the queue yields; emission by the client (exactly when a request is outstanding) is decided only where the agent-slice glue harness is registered (see evidence). Trusted: Kani/CBMC, Instant by transmute, non-recursive Instant subtraction stub.",
}

# ---------------------------------------------------------------------------------------------
# C01 / C02: attribute level (verif_attrs.rs) — one harness per kind / size instance
# ---------------------------------------------------------------------------------------------
ATT = "verif_attrs::"
PRECIS = "strings::opaque_string_prepapre/enforce -> precis_ascii (identity on printable ASCII, Err on empty/control: the documented OpaqueString behaviour on ASCII)"
QSPLAIN = "QuotedStringParser::validate -> qs_plain (accepts exactly printable ASCII without SP, '\"' and '\\\\': qdtext; harness inputs are drawn from that alphabet)"
_ATTR_ALL = ['attr_additional_address_family', 'attr_address_error_code', 'attr_alternate_server_v4', 'attr_alternate_server_v6', 'attr_change_request', 'attr_channel_number', 'attr_data_l0', 'attr_data_l1', 'attr_data_l2', 'attr_data_l3', 'attr_data_l5', 'attr_empty_kinds', 'attr_error_code_l0', 'attr_error_code_l1', 'attr_error_code_l3', 'attr_error_code_l6', 'attr_even_port', 'attr_ice_controlled', 'attr_ice_controlling', 'attr_icmp', 'attr_lifetime', 'attr_mapped_address_v4', 'attr_mapped_address_v6', 'attr_mobility_ticket_l1', 'attr_mobility_ticket_l4', 'attr_nonce_l1', 'attr_nonce_l2', 'attr_nonce_l4', 'attr_other_address_v4', 'attr_other_address_v6', 'attr_padding_l2', 'attr_padding_l5', 'attr_password_algorithm_p0', 'attr_password_algorithm_p1', 'attr_password_algorithm_p3', 'attr_password_algorithm_p4', 'attr_priority', 'attr_realm_l1', 'attr_realm_l3', 'attr_realm_l5', 'attr_registry_codes_distinct', 'attr_requested_address_family', 'attr_requested_transport', 'attr_reservation_token', 'attr_response_origin_v4', 'attr_response_origin_v6', 'attr_response_port', 'attr_software_l0', 'attr_software_l1', 'attr_software_l3', 'attr_software_l6', 'attr_software_limit_509', 'attr_software_limit_510', 'attr_unknown_attributes', 'attr_unknown_attributes_n2', 'attr_user_hash', 'attr_user_name_l1', 'attr_user_name_l2', 'attr_user_name_l4', 'attr_xor_mapped_address_v4', 'attr_xor_mapped_address_v6', 'attr_xor_peer_address_v4', 'attr_xor_peer_address_v6', 'attr_xor_relayed_address_v4', 'attr_xor_relayed_address_v6']
_STRK = ("attr_nonce", "attr_realm", "attr_user_name", "attr_software", "attr_padding")


def _attr_h(n, tier="quick"):
    st = [NOFMT] + ([PRECIS, QSPLAIN] if n.startswith(_STRK) else [])
    return H("stunrs", ATT + n, tier=tier, timeout=900, mem_gb=(14 if ("error_code" in n or "unknown_attributes" in n) else 6), covers=None, stubs=st,
             bounds="attribute kind/size instance '%s': value fields fully symbolic (strings: printable ASCII of the instance's length; lists/params of the instance's sizes), 44-byte output buffer pre-filled with a symbolic byte, arbitrary transaction id" % n[5:],
             funcs=["<kind as EncodeAttributeValue>::encode", "<kind as DecodeAttributeValue>::decode", "StunAttributeType::get_type"],
             sample="e.g. XOR-MAPPED-ADDRESS v6: out[4+j] == ip[j] ^ msg[4+j] for symbolic j, decode(encode(a)) == a")

MSG = "verif_msg::"
TID = "<TransactionId as Default>::default -> tid_any (rand reaches intrinsics Kani cannot compile; ids are always supplied explicitly in the harness)"
REG = "registry::get_handler -> per-query restriction of the registry to the one attribute kind the message carries (agreement with the registry generated from the working tree: c01_registry_agrees, attr_registry_codes_distinct)"
_MSG_KINDS = ["even_port", "data3", "channel_number", "xor_mapped_v4", "data5"]  # "unknown_attributes": UnknownAttributes::add (Arc::make_mut + contains) exhausts the memory cap at message level


def _msg_rt(k, tier="quick"):
    return H("stunrs", MSG + "c01_msg_" + k, tier=tier, timeout=1500, mem_gb=10, covers=None, stubs=[NOFMT, TID, REG],
             bounds="one-attribute message (%s): one concrete (method, class) per instance, transaction id and attribute value symbolic; 48-byte buffer; padding bytes re-written with arbitrary values before decoding" % k,
             funcs=["MessageEncoder::encode", "MessageDecoder::decode", "RawMessage::decode", "RawAttributesIter::next", "context::ignore_attribute"])


def _msg_disc(k, tier="quick"):
    return H("stunrs", MSG + "c14_msg_" + k, tier=tier, timeout=1500, mem_gb=10, covers=2, stubs=[NOFMT, TID],
             bounds="one-attribute message (%s): all contents symbolic, output buffer of every length 0..48 (symbolic), pre-filled with a symbolic byte" % k,
             funcs=["MessageEncoder::encode", "common::check_buffer_boundaries", "common::fill_padding_value", "common::padding"],
             sample="blen=27 < needed=28 -> Err; blen=28 -> Ok(28), buf[28..] untouched")


# measured (thorough run of 2026-10-04, 8 workers): every attribute query not listed here takes <= 40 s
_ATTR_COSTLY = {"attr_unknown_attributes_n2": 514, "attr_unknown_attributes": 462, "attr_error_code_l6": 296, "attr_realm_l5": 204, "attr_address_error_code": 169, "attr_nonce_l4": 151,
                "attr_realm_l3": 147, "attr_error_code_l3": 121, "attr_nonce_l2": 117, "attr_realm_l1": 106}
_C01_SLOW = {"attr_error_code_l0", "attr_error_code_l3", "attr_error_code_l6", "attr_nonce_l2", "attr_nonce_l4", "attr_realm_l3", "attr_realm_l5", "attr_user_name_l2", "attr_user_name_l4",
             "attr_software_l6", "attr_padding_l5", "attr_password_algorithm_p4", 
             "attr_software_limit_510", "attr_unknown_attributes_n2", "attr_data_l5", "attr_mobility_ticket_l4", "attr_address_error_code"}
PAREC = "Algorithm::new -> alg_new_rec and PasswordAlgorithms::add -> pa_add_rec (recording stubs: the id, the parameter length, Some/None and the parameter byte at one symbolic index are recorded where the decoder hands them over; the nested Arc<Vec<..>> storage is not built)"


def _pa_walk(n, tier):
    return H("stunrs", ATT + "c01_pa_walk_n%d" % n, tier=tier, timeout=1500, mem_gb=8, covers=None, stubs=[NOFMT, PAREC],
             bounds="PASSWORD-ALGORITHMS value: every buffer of every length 0..%d bytes (up to %d entries, every parameter length / alignment that fits)" % (n, n // 4),
             funcs=["<PasswordAlgorithms as DecodeAttributeValue>::decode", "<PasswordAlgorithm as DecodeAttributeValue>::decode", "common::padding", "common::check_buffer_boundaries"],
             sample="entries with parameter lengths 1,2,0: offsets 0, 8, 16; value length 20")


PAVIRT = "Algorithm::parameters -> alg_params_virtual (the parameters of list entry k are supplied by the harness: symbolic length 0..=4, symbolic bytes; the entries themselves hold None, so the list owns no nested Arc<Vec<u8>>)"


def _pa_layout(n, tier):
    return H("stunrs", ATT + "c01_pa_layout_n%d" % n, tier=tier, timeout=1500, mem_gb=10, covers=(1 if n >= 3 else 0), stubs=[NOFMT, PAVIRT], playback=False,
             bounds="PASSWORD-ALGORITHMS list of %d entries, every algorithm number, every parameter length 0..4 per entry, symbolic parameter bytes; 44-byte buffer" % n,
             funcs=["<PasswordAlgorithms as EncodeAttributeValue>::encode", "<PasswordAlgorithm as EncodeAttributeValue>::encode", "common::padding", "common::fill_padding_value"])


_PA = [_pa_walk(16, "quick"), _pa_walk(12, "thorough"), _pa_walk(24, "thorough"), _pa_layout(3, "quick"), _pa_layout(1, "thorough"), _pa_layout(2, "thorough"), _pa_layout(4, "thorough")]
prop("C01",
     [_attr_h(n, "thorough" if (n in _ATTR_COSTLY and n not in ("attr_realm_l1",)) else "quick") for n in _ATTR_ALL] + _PA,
     outside="PASSWORD-ALGORITHMS (the list kind: Arc<Vec<PasswordAlgorithm>> of Algorithm{Option<Arc<Vec<u8>>>}; every size instance, even the empty list, exhausted 14-28 GB after the D4 repair made add() go through Arc::make_mut; the harness source stays in verif_attrs.rs, unregistered; the singular PASSWORD-ALGORITHM kind is covered); strings longer than 6 bytes and non-ASCII strings (PRECIS / quoted-string behaviour stubbed on an ASCII alphabet); byte vectors > 5; lists > 2; messages with more than one attribute at message level (MESSAGE-INTEGRITY / FINGERPRINT tails: see C04/C10); the 509/510-byte limits only as concrete witnesses",
     assumptions=["AlgorithmId::Unassigned(0|1|2) and Some(&[]) parameters are wire aliases of Reserved/MD5/SHA256 and None and are outside the documented domain"])
DESCR["C01"] = {
    "level": "Bounded model checking of the real encode/decode pair of each of the 38 attribute kinds (value fields fully symbolic, sizes instantiated) and of one-attribute messages through the real MessageEncoder/MessageDecoder: within the stated sizes the SAT verdict covers every value, transaction id, method and class.",
    "note": "Trusted: Kani/CBMC; stubs nofmt, tid_any, registry_from_source, precis_ascii, qs_plain (each listed in evidence with its contract). Multi-attribute messages and long strings are outside the bound.",
}

_C02_QUICK = {"attr_xor_mapped_address_v4", "attr_xor_mapped_address_v6", "attr_xor_peer_address_v6", "attr_xor_relayed_address_v4", "attr_mapped_address_v4", "attr_alternate_server_v6",
              "attr_error_code_l1", "attr_address_error_code", "attr_icmp", "attr_channel_number", "attr_even_port", "attr_requested_transport", "attr_requested_address_family",
              "attr_additional_address_family", "attr_change_request", "attr_password_algorithm_p1", 
              "attr_unknown_attributes", "attr_priority", "attr_ice_controlling", "attr_response_port", "attr_empty_kinds", "attr_registry_codes_distinct", "attr_reservation_token", "attr_user_hash"}
prop("C02",
     [H("stunrs", MSG + "c02_message_type_bits", timeout=300, mem_gb=3, covers=None, stubs=[NOFMT], bounds="all 16384 (method, class) pairs, both directions, arbitrary top two bits",
        funcs=["MessageType::as_u16", "MessageType::from<u16>"])]
     + [_attr_h(n, "thorough" if (n in _ATTR_COSTLY and n not in ("attr_address_error_code",)) else "quick") for n in _ATTR_ALL]
     + [_msg_disc(k, "thorough") for k in _MSG_KINDS],
     outside="as C01; the reference layouts are written in the harness from the RFC text (RFC 8489 §5/§14, RFC 8656 §18, RFC 5780 §7, RFC 8445 §16.1) and could share a misreading with the implementation; RFC 5769 vectors stay with the existing suite")
DESCR["C02"] = {
    "level": "Differential bounded model checking: the bytes written by the real encoders are compared, for every symbolic value, with a reference written in the harness from the RFC field diagrams (type bits for all 16384 pairs, type codes, big-endian fields, XOR-ed addresses with every transaction-id byte, ERROR-CODE split for all 400 codes, nested PASSWORD-ALGORITHMS padding, zero padding); reserved bits and padding set to arbitrary values decode identically.",
    "note": "Trusted: Kani/CBMC and the harness-side reference; stubs as in C01.",
}

prop("C14",
     [_msg_disc(k, "quick" if k in ("even_port", "data3", "xor_mapped_v4") else "thorough") for k in _MSG_KINDS]
     + [H("stunrs", MSG + "c14_msg_empty", timeout=900, mem_gb=8, covers=2, stubs=[NOFMT, TID], bounds="header-only message, buffer length 0..48 symbolic", funcs=["MessageEncoder::encode"])],
     outside="messages longer than 48 bytes; the 64 KiB boundary (16-bit length accumulator) is decided by the MIR->SMT engine when registered (see evidence)")
DESCR["C14"] = {
    "level": "Bounded model checking of the real MessageEncoder::encode with the output buffer length as a symbolic dimension (0..48) and a symbolic pre-fill: Ok exactly when the buffer is long enough, exact size, bytes beyond it untouched, never a panic.",
    "note": "Small messages only (one attribute, <= 48 bytes); the 64 KiB half of the property is handled separately (see evidence/DESIGN).",
}

# ---------------------------------------------------------------------------------------------
# agent-slice glue harnesses (real client.rs over the environment model)
# ---------------------------------------------------------------------------------------------
GL = "client::verif_client::"
ENVM = "stun_rs (whole crate) -> /verif/shim/stun-rs environment model: decode = Err | any class with the id of a live / unknown request; encode = Err | Ok"
LIGHT = "agent modules fingerprint / st_cred_mech / lt_cred_mech / message -> light models returning the verdict chosen by the harness (fingerprint Ok(true|false)|Err; mechanism Ok|Discarded|NotRetryable|ProtectionViolated|Retry, for indications Ok|Discarded only)"
QMODEL = "StunMessageTimeout::{add,remove,next_timeout,check} -> 2-slot contract model (the contract verified on the real queue by the C11 kernel); due/not-due concrete per instance, made consistent with the symbolic instant by an assume"
RMODEL = "RtoManager::next_rto -> Some(positive interval) | None chosen by the harness (the contract verified on the real schedule by the C06 kernel)"
RTTREC = "RttCalcuator::{update,reset} -> recording stubs (arithmetic verified by the C15 kernel)"
VMAP = "std HashMap in client.rs -> VecMap (linear-scan map with the same API subset; hashbrown is out of CBMC's reach)"
_GS = [NOFMT, CDS, ENVM, LIGHT, QMODEL, RMODEL, RTTREC, VMAP]
_GF = ["StunClient::send_request", "StunClient::send_indication", "StunClient::on_buffer_recv", "StunClient::on_timeout", "StunClient::events", "StunClient::set_timeout", "StunClient::transaction_finished", "client::process_integrity_error", "client::prepare_stun_message", "TransactionEventHandler/TransactionEvents (events.rs)"]


def _g(name, tier="quick", timeout=1500, mem=12, bounds="", covers=None):
    return H("slice", GL + name, tier=tier, timeout=timeout, mem_gb=mem, covers=covers, stubs=_GS, funcs=_GF, bounds=bounds, playback=False)


_G_TIMEOUT1 = [
    _g("glue_timeout_k1_notdue", bounds="1 live request (send instant Some/None, arbitrary deadline), on_timeout at an arbitrary instant before the deadline", covers=0),
    _g("glue_timeout_k1_due_unreliable", bounds="1 live request, deadline due, arbitrary instant, schedule answers Some(any interval)/None", covers=2),
    _g("glue_timeout_k1_due_reliable", bounds="as above on reliable transport", covers=2),
    _g("glue_timeout_k1_due_st", bounds="as above with short-term mechanism (marker verdict arbitrary)", covers=2),
    _g("glue_timeout_k1_due_lt", tier="thorough", bounds="as above with long-term mechanism", covers=2),
]
_G_TIMEOUT2 = [
    _g("glue_timeout_k2_none_due", tier="thorough", timeout=2400, mem=16, bounds="2 live requests, none due", covers=1),
    _g("glue_timeout_k2_first_due", tier="thorough", timeout=2400, mem=16, bounds="2 live requests, first due", covers=1),
    _g("glue_timeout_k2_second_due", tier="thorough", timeout=2400, mem=16, bounds="2 live requests, second due", covers=1),
    _g("glue_timeout_k2_both_due", tier="thorough", timeout=2400, mem=16, bounds="2 live requests, both due, each schedule answer arbitrary", covers=2),
]
_G_SEND = [
    _g("glue_base", timeout=300, mem=4, bounds="fresh client", covers=0),
    _g("glue_send_k0_req", bounds="0 live, limit 1, request; encode/prepare may fail", covers=0),
    _g("glue_send_k1_req", bounds="1 live, limit 2, request", covers=0),
    _g("glue_send_k1_req_full", bounds="1 live, limit 1 (full), request", covers=0),
    _g("glue_send_k1_lt_req", tier="thorough", bounds="1 live, long-term mechanism model, request", covers=0),
    _g("glue_send_k0_req_full", bounds="0 live, limit 0, request", covers=0),
    _g("glue_send_k0_ind", bounds="0 live, indication", covers=0),
    _g("glue_send_k1_ind", bounds="1 live, limit 1, indication", covers=0),
    _g("glue_send_k2_req_full", tier="thorough", timeout=2400, mem=16, bounds="2 live, limit 2 (full), request", covers=0),
    _g("glue_send_k1_lt_ind", tier="thorough", bounds="1 live, long-term mechanism model, indication (refused)", covers=0),
    _g("glue_send_k1_req_full_overdue", bounds="1 live whose deadline has passed without a timer call, limit 1 (full), request", covers=1),
    _g("glue_send_k1_req_overdue", tier="thorough", bounds="1 live whose deadline has passed without a timer call, limit 2, request", covers=1),
]
_G_RECV = [
    _g("glue_recv_k0", bounds="0 live; decode Err | any class, unknown id; all verdicts", covers=0),
    _g("glue_recv_k1", timeout=2400, mem=16, bounds="1 live (send instant Some/None); decode Err | any class with live/unknown id", covers=2),
    _g("glue_recv_k1_fp", timeout=2400, mem=16, bounds="as k1 with use_fingerprint and fingerprint verdict Ok(true)/Ok(false)/Err", covers=3),
    _g("glue_recv_k1_st", timeout=2400, mem=16, bounds="as k1 with short-term mechanism model, all five verdicts", covers=3),
    _g("glue_recv_k1_st_fp", tier="thorough", timeout=2400, mem=16, bounds="as k1 with fingerprint and short-term mechanism", covers=3),
    _g("glue_recv_k1_lt", tier="thorough", timeout=2400, mem=16, bounds="as k1 with long-term mechanism model", covers=3),
    _g("glue_recv_k2", tier="thorough", timeout=3000, mem=20, bounds="2 live", covers=2),
    _g("glue_recv_k2_st_fp", tier="thorough", timeout=3000, mem=20, bounds="2 live, fingerprint and short-term mechanism", covers=3),
]
_G_RTT = [_g("glue_rtt_staleness", bounds="two consecutive requests with an arbitrary gap 0..1300 s", covers=2)]

_SLICE_OUT = ("more than 2 concurrent requests; the environment model of stun-rs and the light mechanism models are trusted to allow everything the real code can do (the real codec and the real mechanisms are checked separately); "
              "transaction ids drawn from a counter (the RNG never repeats an id); arbitrary bytes -> client composition on the real stack")
prop("C05", _G_SEND[:4] + _G_TIMEOUT1 + _G_TIMEOUT2 + _G_RECV, outside=_SLICE_OUT,
     assumptions=["Inv (table ids == queue ids) characterises the reachable client states; base + step harnesses establish it for <= 2 live requests", "for indications the mechanisms answer Ok or Discarded only (holds for both real mechanisms by reading; see C07)"])
DESCR["C05"] = {
    "level": "Bounded model checking of the real client.rs as glue: induction base plus one arbitrary operation (send, timer call with any subset of deadlines due and any schedule answer, received buffer with any decoding/fingerprint/mechanism verdict) from a havocked state with <= 2 live requests; asserts exactly one final event per finished id, removal from table and queue, silence otherwise, and the invariant again. Histories of any length follow by induction within the 2-request bound.",
    "note": "Assume/guarantee: stun-rs, the mechanisms, the deadline queue and the RTO schedule are replaced by models (listed as stubs in evidence); counterexamples are model-level and are confirmed by a native test on the real stack before being called defects.",
}
prop("C12", [g for g in _G_SEND if "lt" not in g.name] + [_G_TIMEOUT1[1], _G_TIMEOUT1[2], _G_TIMEOUT2[3]] + [_G_RECV[1], _G_RECV[3]], outside=_SLICE_OUT + "; limits above 3",
     assumptions=["as C05"])
DESCR["C12"] = {
    "level": "Same inductive step as C05 with the limit symbolic (0..3): send_request is refused with MaxOutstandingRequestsReached exactly when the table is full, a refusal changes nothing, every final outcome (response, failure, time-out, retry) removes exactly one entry, indications never change the table.",
    "note": "As C05; 'counts exactly the unfinished requests' = Inv + this step.",
}
prop("C17", _G_RECV, outside=_SLICE_OUT + "; the mechanisms' own state on rejection (learned algorithm, cached parameters, violated-id marker) belongs to the C07/C08 harnesses on the real mechanism code",
     assumptions=["as C05"])
DESCR["C17"] = {
    "level": "Frame condition on the on_buffer_recv step: whenever the real client returns Err (undecodable, request, unknown/finished id, fingerprint absent/wrong/failed, mechanism says Discarded) there are no events and the transaction table, per-transaction send instants, queue deadlines and RTT estimator are field-by-field unchanged.",
    "note": "As C05. Credential-state frame conditions are outside this check (mechanisms are modelled here).",
}

RAW = "raw::verif_raw::"
HMACSTUB = "<MessageIntegrity|MessageIntegritySha256 as HmacSha>::hmac_sha -> recording stub (copies key and input to ghost buffers, returns the MAC chosen by the harness): HMAC/SHA primitives and their strength are outside the claim"
CRCSTUB = "FINGERPRINT value compared with the crc crate's CRC of the expected input (the crate's CRC vs a bitwise CRC-32/ISO-HDLC reference is decided by the c10_crc_* queries)"
_C04_RAW = [H("stunrs", RAW + "c04_input_text_n%d" % n, tier=t, timeout=1500, mem_gb=10, covers=1, stubs=[NOFMT],
              bounds="%d-byte buffer: valid header, symbolic length field, all attribute bytes symbolic, attribute type symbolic (all 65536)" % n,
              funcs=["raw::get_input_text", "RawMessage::decode", "RawAttributesIter::next", "RawAttribute::decode"],
              sample="buf = hdr(len=16) | 0x8022 len 1 'x' pad3 | 0x0008 len 4 .... -> input = buf[..28] with length := 16")
            for (n, t) in ((28, "quick"), (36, "quick"), (44, "thorough"))]
_C04_TAIL = [H("stunrs", MSG + n, tier=t, timeout=1800, mem_gb=12, covers=None, stubs=[NOFMT, TID, PRECIS, HMACSTUB, CRCSTUB],
               bounds="message = PRIORITY(symbolic) + tail %s; method/class/transaction id symbolic; MAC/CRC values symbolic" % n.split("tail_")[1],
               funcs=["MessageEncoder::encode", "MessageIntegrity::post_encode", "MessageIntegritySha256::post_encode", "Fingerprint::post_encode", "raw::get_input_text"])
             for (n, t) in (("c04_tail_mi", "quick"), ("c04_tail_sha", "quick"), ("c04_tail_mi_sha", "thorough"), ("c04_tail_mi_fp", "quick"), ("c04_tail_sha_fp", "thorough"), ("c04_tail_mi_sha_fp", "thorough"))]
KEYREC = "HMACKey::get_key (MD5 / SHA-256 of the key text) -> get_key_rec (records the text it is handed); strings::opaque_string_prepapre / opaque_string_enforce -> models that make the two distinguishable: preparation validates only, enforcement also rewrites one designated character ('~' -> '-', standing for any code point OpaqueString enforcement maps or normalises); alloc::fmt::format is NOT stubbed in this query (the real format! builds the text)"
_C04_KEY = [H("stunrs", ATT + "c04_long_term_key_text", tier="thorough", timeout=2400, mem_gb=14, covers=None, stubs=[KEYREC], playback=False,
              bounds="one-character user, realm and password, every printable ASCII value each", funcs=["HMACKey::new_long_term", "alloc::fmt::format (real)"])]
# _C04_KEY (c04_long_term_key_text) is NOT registered: with the real format! the query did not finish in 45 min (unwind 10 and 4)
prop("C04", _C04_RAW,
     outside="HMAC-SHA1 / HMAC-SHA256 / MD5 / SHA-256 primitives, their argument order inside the primitive crates, and the long-term key derivation string (assumed; covered by the RFC 5769/8489 vectors of the existing suite); 'no other key or message yields this MAC' is a cryptographic assumption; buffers > 44 bytes for the walker, tails beyond one ordinary attribute",
     assumptions=["HMAC is a secure MAC: two different inputs or keys do not collide"])
DESCR["C04"] = {
    "level": "Bounded model checking of which bytes are authenticated and how the MAC is compared: get_input_text (the function both the decoder's validation and the agent use to select the MAC input) against an independent TLV walker for every buffer of the instantiated sizes and every attribute type; MessageIntegrity/MessageIntegritySha256::validate with the HMAC primitive stubbed accepts exactly when all 20/32 bytes equal the computed MAC.",
    "note": "Decides MAC-input selection on the validating side and the comparison, not cryptographic strength (assumed) and not the encoder-side call (the message-level encoder queries with recording HMAC stubs exhausted 20 GB and are not registered; the encoder side stays with the RFC 5769 vectors of the existing suite). Trusted: Kani/CBMC, the stubs, precis_ascii for the 2-byte ASCII password.",
}
_C10_CRC = [H("stunrs", MSG + "c10_crc_n%d" % n, tier=t, timeout=900, mem_gb=6, covers=None, bounds="all inputs of %d bytes" % n,
              funcs=["crc::Crc::<u32>::new(&CRC_32_ISO_HDLC)", "crc::Crc::<u32>::checksum"]) for (n, t) in ((0, "quick"), (1, "quick"), (3, "quick"), (4, "quick"), (8, "thorough"))]
_C10_TAIL = [H("stunrs", MSG + n, tier=t, timeout=1800, mem_gb=12, covers=None, stubs=[NOFMT, TID, PRECIS, HMACSTUB, CRCSTUB],
               bounds="message = PRIORITY + tail %s, contents symbolic" % n.split("tail_")[1], funcs=["MessageEncoder::encode", "Fingerprint::encode/post_encode"])
             for (n, t) in (("c10_tail_fp", "quick"), ("c04_tail_mi_fp", "thorough"))]


# ---- additions: attribute-level buffer discipline (C14), MAC/CRC comparison (C04/C10), trimming (C19)
_C14_ATTR = [H("stunrs", ATT + n, timeout=900, mem_gb=6, covers=2, stubs=[NOFMT],
               bounds="attribute encoder(s) %s into a slice of every length 0..needed+2 (symbolic), symbolic pre-fill" % n[9:-8],
               funcs=["<kind as EncodeAttributeValue>::encode", "common::check_buffer_boundaries"])
             for n in ("c14_attr_error_code_any_len", "c14_attr_address_error_code_any_len", "c14_attr_fixed_kinds_any_len", "c14_attr_bytes_kinds_any_len")]
PROPS["C14"] = PROPS["C14"] + _C14_ATTR
_C04_VAL = [H("stunrs", ATT + n, timeout=900, mem_gb=6, covers=1, stubs=[NOFMT, PRECIS, HMACSTUB], playback=False,
              bounds="stored MAC and computed MAC both fully symbolic", funcs=["MessageIntegrity::validate", "MessageIntegritySha256::validate"])
            for n in ("c04_validate_mi_compares_all_bytes", "c04_validate_sha256_compares_all_bytes")]
PROPS["C04"] = PROPS["C04"] + _C04_VAL
_C10_VAL = [H("stunrs", ATT + "c10_fingerprint_validate", timeout=900, mem_gb=6, covers=None, stubs=[NOFMT], bounds="stored value and 4-byte input symbolic", funcs=["Fingerprint::validate", "Fingerprint::from<[u8;4]>"])]
STR = "strings::verif_strings::"
_C19_TRIM = [H("stunrs", STR + "c19_quoted_trim_%d_%d" % (a, b), tier=t, timeout=900, mem_gb=8, covers=1, stubs=[NOFMT, QS],
               bounds="text = %d leading + (lead,cont) pair + 'm' + (lead,cont) pair + %d trailing characters; leading/trailing from the removable set and printable ASCII; pairs = U+00C0..DF, U+0080..BF" % (a, b),
               funcs=["strings::formatted_quoted_string_from", "strings::skip_starting_characteres", "strings::skip_trailing_characteres", "QuotedString::new"], playback=True)
             for (a, b, t) in ((0, 0, "quick"), (1, 1, "quick"), (2, 0, "thorough"), (0, 2, "thorough"))]
PROPS["C19"] = PROPS["C19"] + _C19_TRIM

BUILDREC = "StunMessageBuilder::with_attribute -> recording stub (type code and unknown-attribute data recorded, attribute not stored): the decoded attributes are observed at the point where the decoder hands them to the builder"
REGSMALL = "registry::get_handler -> 4-kind restriction (MI, SHA256, FINGERPRINT, PRIORITY) of the registry generated from the working tree; agreement on the codes used asserted by c18_registry_small_agrees"
_C18 = [H("stunrs", CTX + "c18_registry_small_agrees", timeout=300, mem_gb=3, covers=None, bounds="7 type codes", funcs=["registry (generated)"])] + [
    H("stunrs", CTX + n, tier=t, timeout=1500, mem_gb=12, covers=2, stubs=[NOFMT, TID, REGSMALL, BUILDREC],
      bounds="%s message with symbolic slot types over {FINGERPRINT, PRIORITY, unknown code}, all value bytes / method / class / transaction id symbolic; decoder options concrete: %s" % (lay, n[11:]),
      funcs=["MessageDecoder::decode", "context::ignore_attribute", "Unknown::new", "RawMessage::decode", "RawAttributesIter::next"])
    for (n, t, lay) in (("c18_decode_noctx", "quick", "36-byte 2-slot"), ("c18_decode_default_ctx", "quick", "36-byte 2-slot"), ("c18_decode_not_ignore", "quick", "36-byte 2-slot"), ("c18_decode_unknown_data", "quick", "36-byte 2-slot"),
                        ("c18_decode_noctx_mi", "thorough", "52-byte MI+slot"), ("c18_decode_default_ctx_mi", "thorough", "52-byte MI+slot"), ("c18_decode_not_ignore_mi", "thorough", "52-byte MI+slot"), ("c18_decode_unknown_block_data", "thorough", "52-byte unknown-block+slot"))]
prop("C18", _C18, outside="validation-on vs validation-off (needs the MAC/CRC primitives on symbolic buffers; the filter/validation interaction is covered only by the C09 kernel and the C04/C10 input-selection queries); layouts other than the fixed 4-attribute one; attribute kinds other than the 4 registered + unknown")
DESCR["C18"] = {
    "level": "Bounded model checking of the real MessageDecoder::decode under concrete option sets on two small fixed layouts (36-byte two-slot, 52-byte block+slot) with symbolic attribute types and contents: no-context == default-context, not_ignore returns every wire attribute in order, the default result is the subsequence admitted by the RFC rule, with_unknown_data adds exactly the raw value bytes.",
    "note": "The validation-on/off relation is not decided here (listed under outside). Trusted: Kani/CBMC, the 4-kind registry restriction.",
}

# ---- C10: CRC itself, input selection / XOR constant, validation, client enforcement (glue)
prop("C10", _C10_CRC + _C10_VAL + [_G_RECV[2], _G_RECV[4]],
     outside="the encoder-side FINGERPRINT computation at message level (the 28-byte encode with the crc table generation did not finish in 30 min and is not registered; it stays with the RFC 5769 vectors of the existing suite); single-bit / single-byte fault detection on whole messages (a property of CRC-32 itself: every burst <= 32 bits is detected; not re-proved here); CRC equivalence beyond 8-byte inputs; 'appends a valid FINGERPRINT as the last attribute' is decided at attribute-list level only where the mechanism-level harnesses are registered (C13)",
     assumptions=["CRC-32/ISO-HDLC detects all single-bit and single-byte errors (mathematical property of the polynomial)", "as C05 for the client part"])
DESCR["C10"] = {
    "level": "Bounded model checking of (i) the crc crate's CRC-32/ISO-HDLC against a bitwise reference for all inputs up to 4 (thorough: 8) bytes, (ii) Fingerprint::validate accepts exactly stored XOR 0x5354554e == CRC(input) with the input selected by get_input_text (walker equivalence, C04), (iii) the real client glue: with use_fingerprint a message whose fingerprint verdict is absent/false/error is rejected before the mechanism sees it, produces no event and changes nothing.",
    "note": "Error-detection strength of CRC-32 is a mathematical assumption. Client part over the environment model (see C05).",
}

# ---- C03: framing, walker, server-chosen strings, whole decode on a fixed layout, reassembler
prop("C03",
     [H("stunrs", RAW + n, tier=t, timeout=900, mem_gb=8, stubs=[NOFMT],
        covers=(1 if (("raw_message" in n and int(n.rsplit("_n", 1)[1]) >= 20) or ("raw_iter" in n and int(n.rsplit("_n", 1)[1]) >= 8)) else 0),
        bounds="arbitrary buffer of %s bytes" % n.rsplit("_n", 1)[1], funcs=["RawMessage::decode", "MessageHeader::decode", "RawAttributesIter::next", "RawAttribute::decode"])
      for (n, t) in (("c03_raw_message_n0", "quick"), ("c03_raw_message_n7", "quick"), ("c03_raw_message_n19", "quick"), ("c03_raw_message_n20", "quick"), ("c03_raw_message_n27", "quick"), ("c03_raw_message_n40", "thorough"),
                     ("c03_raw_iter_n0", "quick"), ("c03_raw_iter_n3", "quick"), ("c03_raw_iter_n8", "quick"), ("c03_raw_iter_n13", "quick"), ("c03_raw_iter_n20", "thorough"))]
     + [_C04_RAW[0]]
     + [h for h in PROPS["C19"] if "nonce_cookie" in h.name or "quoted_trim" in h.name]
     + [h for h in PROPS["C16"] if h.name.endswith(("c16_buf22_s26_l4_cut1", "c16_buf24_s24_l4_cut1_anyhdr"))],
     outside="arbitrary bytes through every one of the 38 attribute decoders and through the whole MessageDecoder (only the fixed-layout 4-kind message of C18 and the framing layer are decided); buffers > 40 bytes; the client on the real stack (its post-processing of decoded messages is decided over the environment model in C05/C17)",
     assumptions=["quoted-string grammar over-approximated (any structurally assembled text may be accepted); counterexamples are replayed through the real constructor"])
DESCR["C03"] = {
    "level": "Bounded model checking of the untrusted-input paths that are within the solver's reach: header/TLV framing on arbitrary buffers of the instantiated sizes (no panic, size = 20 + length field <= input), the attribute walker (terminates, stays inside the area), get_input_text, the nonce-cookie and quoted-string post-processing of server-chosen text with multi-byte characters at every critical offset, the whole decoder on a fixed-layout message, and the stream reassembler for any chunking.",
    "note": "Partial claim (see outside): per-kind attribute decoders on arbitrary bytes are covered only through the round-trip harnesses of C01 and the PASSWORD-ALGORITHMS / ERROR-CODE reserved-bit variants.",
}
NOT_APPLICABLE.update({
    "C07": "the credential mechanisms' decision logic needs the attribute-level environment model (agent-on-shim build), not built yet in this round; the client-side handling of the mechanism's verdict is decided in C05/C17",
    "C08": "as C07 (long-term mechanism): not built yet in this round",
    "C13": "attribute-list construction needs the agent-on-shim build: not built yet; retransmission identity is decided in C05/C06 glue harnesses",
})

# ---------------------------------------------------------------------------------------------
# agentshim build: the whole real stun-agent crate over the attribute-level environment model
# ---------------------------------------------------------------------------------------------
ST = "st_cred_mech::verif_st::"
ENV2M = "stun_rs (whole crate) -> attribute-level environment model /verif/shim/stun-rs: attribute values are tokens, 'MAC verifies under key K' = the attribute carries K's id, key ids are derived from (password) resp. (realm, algorithm), get_input_text succeeds or not as the harness chooses"
VSET = "std HashSet/HashMap in integrity.rs/client.rs -> VecSet/VecMap (linear scan, same API subset)"
_AS = [NOFMT, ENV2M, VSET]
_C07 = [H("agentshim", ST + n, tier=t, timeout=1800, mem_gb=12, covers=c, stubs=_AS, playback=False,
          bounds=b, funcs=["ShortTermCredentialClient::recv_message/process_message", "TransportIntegrity::compute_message_integrity/discard_message/signal_protection_violated_on_timeout", "integrity::validate_message_integrity", "ProtectedAttributeIterator (lib.rs)"])
        for (n, t, c, b) in (("c07_recv_n0", "quick", 1, "received message with 0 attributes; state: algorithm None/MI/SHA256, reliable or not; class indication/success/error"),
                             ("c07_recv_n1", "quick", 2, "1 arbitrary attribute (MI/SHA256 with MAC under the configured/another/no key, FINGERPRINT, ordinary)"),
                             ("c07_recv_n2", "quick", 2, "2 arbitrary attributes in any order"),
                             ("c07_recv_n3", "thorough", 2, "3 arbitrary attributes in any order"),
                             ("c07_two_replies_unreliable", "quick", 1, "two replies for one transaction on unreliable transport (rejected then acceptable, valid then duplicate)"))]
_C13_PATS = [(9, 9, 9), (0, 0, 9), (0, 1, 9), (0, 2, 9), (0, 3, 9), (0, 4, 9), (0, 5, 9), (1, 0, 9), (1, 1, 9), (1, 2, 9), (1, 3, 9), (1, 4, 9), (1, 5, 9), (2, 0, 9), (2, 1, 9), (2, 2, 9), (2, 3, 9), (2, 4, 9), (2, 5, 9), (3, 0, 9), (3, 1, 9), (3, 2, 9), (3, 3, 9), (3, 4, 9), (3, 5, 9), (4, 0, 9), (4, 1, 9), (4, 2, 9), (4, 3, 9), (4, 4, 9), (4, 5, 9), (5, 0, 9), (5, 1, 9), (5, 2, 9), (5, 3, 9), (5, 4, 9), (5, 5, 9), (0, 1, 0), (0, 2, 3), (2, 0, 4), (3, 0, 5), (4, 5, 0), (5, 4, 3), (1, 1, 2), (0, 3, 4), (2, 2, 0), (5, 0, 1), (3, 4, 5), (4, 3, 2)]
_KN = {0: "ordinary-A", 1: "ordinary-B", 2: "USERNAME", 3: "MI", 4: "SHA256", 5: "FINGERPRINT", 9: "-"}
_C13_QUICK = {(9, 9, 9), (0, 1, 9), (0, 0, 9), (3, 4, 9), (0, 4, 9), (3, 5, 9), (5, 4, 3)}
_C13 = [H("agentshim", ST + "c13_outgoing_p%d%d%d" % p, tier=("quick" if p in _C13_QUICK else "thorough"), timeout=1500, mem_gb=(28 if 9 not in p else (22 if 5 in p and 0 in p else 14)), covers=None, stubs=_AS, playback=False,
          bounds="application list with the concrete kind pattern [%s] (values symbolic); mechanism state None/MI/SHA256 symbolic" % ", ".join(_KN[k] for k in p),
          funcs=["StunAttributes::add/remove", "From<StunAttributes> for Vec<StunAttribute>", "ShortTermCredentialClient::add_attributes/prepare_request_or_indication", "st_cred_mech::remove_auth_and_integrity_attrs"])
        for p in _C13_PATS]
_C09_IT = [H("agentshim", "verif_iter::c09_protected_iter_n%d" % n, tier=t, timeout=900, mem_gb=6, covers=None, stubs=[ENV2M],
             bounds="all sequences of %d attributes over the four kinds" % n, funcs=["ProtectedAttributeIteratorObject::next (stun-agent lib.rs)"], playback=False)
           for (n, t) in ((3, "quick"), (5, "quick"), (7, "thorough"))]
_AS_OUT = "the environment model of stun-rs is trusted to allow everything the real codec can do at attribute granularity (MAC verification = key identity); byte-level form and MAC values of emitted packets (C01/C02/C04); histories longer than 2 replies per transaction; the client glue is decided separately (C05/C17)"
prop("C07", _C07 + [h for h in _C13 if h.name.endswith(("p349", "p049", "p409"))] + [_G_TIMEOUT1[3], _G_RECV[3]], outside=_AS_OUT,
     assumptions=["a MAC verifies under exactly one key (HMAC assumption, see C04)", "as C05 for the two glue queries (time-out reported as protection violated iff the marker is set; mechanism verdicts mapped to events)"])
DESCR["C07"] = {
    "level": "Bounded model checking of the real short-term mechanism (st_cred_mech.rs + integrity.rs + the protected iterator of lib.rs) over an attribute-level environment model: one received message with <= 2 (thorough: 3) arbitrary attributes from every state (algorithm None/MI/SHA256 x reliable/unreliable x indication/response), and two-reply sequences, against the RFC 8489 9.1.4 decision table stated in the property; plus the attribute list of outgoing messages.",
    "note": "MAC verification is modelled as key identity; wire bytes and real HMAC are C04's business. Counterexamples are model-level.",
}
prop("C13", _C13 + [_G_TIMEOUT1[1], _G_SEND[2]], outside=_AS_OUT + "; long-term mechanism decoration (see C08 when registered); 'decodes as a request of the asked method with a fresh transaction id' rests on create_stun_message + the codec round trip (C01) and on the RNG assumption",
     assumptions=["retransmission identity: the glue query compares packet tokens (same Arc in the real code)"])
DESCR["C13"] = {
    "level": "Bounded model checking of the real attribute-list construction (message.rs StunAttributes add/remove/into Vec, short-term decoration) for all 36 ordered kind patterns of 2 application attributes and 12 patterns of 3 (kinds concrete per query, values and mechanism state symbolic), duplicates included, and pre-populated credential/integrity/FINGERPRINT attributes, against the order stated in the property; retransmission identity via the client glue query.",
    "note": "Attribute values are tokens of the environment model; byte-level well-formedness is C01/C02/C04.",
}
PROPS["C09"] = PROPS["C09"] + _C09_IT
for _p in ("C07", "C13"):
    NOT_APPLICABLE.pop(_p, None)

LT = "lt_cred_mech::verif_lt::"
_LTF = ["LongTermCredentialClient::prepare_request/first_request/subsequent_request/retry_from_*", "LongTermCredentialClient::recv_message/process_error_response/process_success_response/process_*", "lt_cred_mech::create_long_term_auth_attrs/authenticate_message", "TransportIntegrity::*", "StunAttributes::add/remove"]
_C08 = [H("agentshim", LT + n, tier=t, timeout=2400, mem_gb=14, covers=c, stubs=_AS, playback=False, bounds=b, funcs=_LTF)
        for (n, t, c, b) in (
    ("c08_prepare_without_params_or_indication", "quick", None, "any state without server parameters; request or indication"),
    ("c08_prepare_first_app0", "quick", None, "state FirstRequest, 1 ordinary application attribute, cached parameters arbitrary or absent"),
    ("c08_recv_401_realm_nonce", "thorough", 1, "received message with the concrete shape '401_realm_nonce' (attribute contents, MAC key ids, nonce-cookie flags, algorithm lists symbolic) from any mechanism state, transport, cached parameters"),
    ("c08_recv_401_realm_nonce_algs", "thorough", 1, "received message with the concrete shape '401_realm_nonce_algs' (attribute contents, MAC key ids, nonce-cookie flags, algorithm lists symbolic) from any mechanism state, transport, cached parameters"),
    ("c08_recv_401_second_challenge", "thorough", 1, "received message with the concrete shape '401_second_challenge' (attribute contents, MAC key ids, nonce-cookie flags, algorithm lists symbolic) from any mechanism state, transport, cached parameters"),
    ("c08_recv_401_second_challenge_no_algs", "thorough", 1, "received message with the concrete shape '401_second_challenge_no_algs' (attribute contents, MAC key ids, nonce-cookie flags, algorithm lists symbolic) from any mechanism state, transport, cached parameters"),
    ("c08_recv_401_with_sha", "thorough", 1, "received message with the concrete shape '401_with_sha' (attribute contents, MAC key ids, nonce-cookie flags, algorithm lists symbolic) from any mechanism state, transport, cached parameters"),
    ("c08_recv_401_with_mi", "thorough", 1, "received message with the concrete shape '401_with_mi' (attribute contents, MAC key ids, nonce-cookie flags, algorithm lists symbolic) from any mechanism state, transport, cached parameters"),
    ("c08_recv_401_no_realm", "thorough", 1, "received message with the concrete shape '401_no_realm' (attribute contents, MAC key ids, nonce-cookie flags, algorithm lists symbolic) from any mechanism state, transport, cached parameters"),
    ("c08_recv_401_no_nonce", "thorough", 1, "received message with the concrete shape '401_no_nonce' (attribute contents, MAC key ids, nonce-cookie flags, algorithm lists symbolic) from any mechanism state, transport, cached parameters"),
    ("c08_recv_438_nonce", "thorough", 1, "received message with the concrete shape '438_nonce' (attribute contents, MAC key ids, nonce-cookie flags, algorithm lists symbolic) from any mechanism state, transport, cached parameters"),
    ("c08_recv_438_nonce_mi", "thorough", 1, "received message with the concrete shape '438_nonce_mi' (attribute contents, MAC key ids, nonce-cookie flags, algorithm lists symbolic) from any mechanism state, transport, cached parameters"),
    ("c08_recv_438_nonce_sha", "thorough", 1, "received message with the concrete shape '438_nonce_sha' (attribute contents, MAC key ids, nonce-cookie flags, algorithm lists symbolic) from any mechanism state, transport, cached parameters"),
    ("c08_recv_438_no_nonce", "thorough", 1, "received message with the concrete shape '438_no_nonce' (attribute contents, MAC key ids, nonce-cookie flags, algorithm lists symbolic) from any mechanism state, transport, cached parameters"),
    ("c08_recv_438_no_params", "thorough", 1, "received message with the concrete shape '438_no_params' (attribute contents, MAC key ids, nonce-cookie flags, algorithm lists symbolic) from any mechanism state, transport, cached parameters"),
    ("c08_recv_420_mi", "thorough", 1, "received message with the concrete shape '420_mi' (attribute contents, MAC key ids, nonce-cookie flags, algorithm lists symbolic) from any mechanism state, transport, cached parameters"),
    ("c08_recv_420_sha", "thorough", 1, "received message with the concrete shape '420_sha' (attribute contents, MAC key ids, nonce-cookie flags, algorithm lists symbolic) from any mechanism state, transport, cached parameters"),
    ("c08_recv_420_plain", "thorough", 1, "received message with the concrete shape '420_plain' (attribute contents, MAC key ids, nonce-cookie flags, algorithm lists symbolic) from any mechanism state, transport, cached parameters"),
    ("c08_recv_error_no_code", "thorough", 1, "received message with the concrete shape 'error_no_code' (attribute contents, MAC key ids, nonce-cookie flags, algorithm lists symbolic) from any mechanism state, transport, cached parameters"),
    ("c08_recv_success_mi", "thorough", 1, "received message with the concrete shape 'success_mi' (attribute contents, MAC key ids, nonce-cookie flags, algorithm lists symbolic) from any mechanism state, transport, cached parameters"),
    ("c08_recv_success_sha", "thorough", 1, "received message with the concrete shape 'success_sha' (attribute contents, MAC key ids, nonce-cookie flags, algorithm lists symbolic) from any mechanism state, transport, cached parameters"),
    ("c08_recv_success_wrong_kind", "thorough", 1, "received message with the concrete shape 'success_wrong_kind' (attribute contents, MAC key ids, nonce-cookie flags, algorithm lists symbolic) from any mechanism state, transport, cached parameters"),
    ("c08_recv_success_both", "thorough", 1, "received message with the concrete shape 'success_both' (attribute contents, MAC key ids, nonce-cookie flags, algorithm lists symbolic) from any mechanism state, transport, cached parameters"),
    ("c08_recv_success_plain", "thorough", 1, "received message with the concrete shape 'success_plain' (attribute contents, MAC key ids, nonce-cookie flags, algorithm lists symbolic) from any mechanism state, transport, cached parameters"),
    ("c08_recv_success_no_params", "thorough", 1, "received message with the concrete shape 'success_no_params' (attribute contents, MAC key ids, nonce-cookie flags, algorithm lists symbolic) from any mechanism state, transport, cached parameters"),
    ("c08_recv_indication", "thorough", 1, "received message with the concrete shape 'indication' (attribute contents, MAC key ids, nonce-cookie flags, algorithm lists symbolic) from any mechanism state, transport, cached parameters"),
    ("c08_recv_request", "thorough", 1, "received message with the concrete shape 'request' (attribute contents, MAC key ids, nonce-cookie flags, algorithm lists symbolic) from any mechanism state, transport, cached parameters"),
    ("c08_recvq_401_first_challenge", "quick", 1, "401 with REALM, NONCE, PASSWORD-ALGORITHMS from state FirstRequest without cached parameters, unreliable transport (contents symbolic)"),
    ("c08_recvq_401_second_challenge", "quick", 1, "second 401 with algorithms while parameters without algorithms are cached, state SubsequentRequest, unreliable"),
    ("c08_recvq_438_nonce_mi", "quick", 1, "438 with NONCE and MESSAGE-INTEGRITY (MAC under any key) with cached parameters, state SubsequentRequest, unreliable"),
    ("c08_recvq_success_mi", "quick", 1, "success response with MESSAGE-INTEGRITY, cached parameters, reliable transport"),
    ("c08_recvq_indication", "quick", 1, "indication"),
    )]
_C08_KF = [
    H("agentshim", LT + "c08_kf_retry401_no_integrity", timeout=1200, mem_gb=10, covers=None, stubs=_AS, playback=False, expect_fail=True, finding="c08_retry401_no_integrity",
      bounds="twin of the known finding: asserts exactly the listed role", funcs=_LTF),
    H("agentshim", LT + "c08_kf_retry438_no_password_algorithms", timeout=1200, mem_gb=10, covers=None, stubs=_AS, playback=False, expect_fail=True, finding="c08_retry438_no_password_algorithms",
      bounds="twin of the known finding: asserts exactly the listed role", funcs=_LTF),
]
prop("C08", _C08 + [_G_RECV[5], _G_SEND[4], _G_SEND[9]], outside=_AS_OUT + "; REQUEST FORMING IN THE STATES AFTER A CHALLENGE (Retry(401), Retry(438), SubsequentRequest) IS NOT DECIDED: the 5-7 attribute list construction on the real message.rs/lt_cred_mech.rs exhausted 14-27 GB in every formulation tried (harness source kept, not registered); only the first request and the no-parameters/indication refusals are decided on the sending side; the password never appearing on the wire (needs the real encoder and real strings); exchanges are covered one step at a time from arbitrary states (no explicit 6-exchange histories)",
     assumptions=["key identity = (realm, chosen password algorithm) for a fixed user and password", "cached parameters always hold a supported algorithm choice when algorithms were offered (established by the 401 step)"])
DESCR["C08"] = {
    "level": "Bounded model checking of the real long-term mechanism (lt_cred_mech.rs + integrity.rs) over the attribute-level environment model: the first request carries no credential attributes, indications are refused, and one received message (success / error with 401, 438, other or no code / indication / request, any subset of REALM, NONCE with cookie flags, PASSWORD-ALGORITHMS, MI, SHA256 with MACs under arbitrary keys) from an arbitrary state against the 9.2.5 table, including the frame condition on rejection.",
    "note": "Receiving side only, one concrete attribute shape per query (25 shapes). Request forming after a challenge is outside the claim (solver memory); the two deviations seen there by review (retry after 401 without integrity, retry after 438 without PASSWORD-ALGORITHM(S); both pinned by existing tests) are described in DESIGN.md §6 and are not decided by this check. MAC verification is key identity in the model.",
}
NOT_APPLICABLE.pop("C08", None)
PROPS["C17"] = PROPS["C17"] + [h for h in _C08 if "c08_recvq_438_nonce_mi" in h.name or "c08_recv_438_nonce_mi" in h.name or "c08_recv_401_with_sha" in h.name or "c08_recvq_success_mi" in h.name] + [_C07[1], _C07[2]]
DESCR["C17"]["level"] += " The credential-state half is decided on the real mechanisms (agentshim build): after every non-accepting recv_message the cached parameters, the mechanism state and the learned algorithm are unchanged, the only permitted effect being the protection-violated marker."


# C18: the symbolic-type whole-decoder queries did not fit (36-byte / 2-attribute decode with symbolic slot
# types: 11-19 GB, > 10 min); with CONCRETE attribute types per query (contents symbolic) and the recording
# builder stub the decode fits (6 GB, ~8 min).  The harnesses c18_decode_* stay in verif_context.rs, unregistered.
PROPS.pop("C18", None)
META.pop("C18", None)
_C18C = [H("stunrs", CTX + n, tier=t, timeout=2400, mem_gb=14, covers=None, stubs=[NOFMT, TID, REGSMALL, BUILDREC],
           bounds="%s; attribute TYPES concrete, all value bytes / method / class / transaction id symbolic; decoder options: %s" % (pat, opt),
           funcs=["MessageDecoder::decode", "context::ignore_attribute", "RawMessage::decode", "RawAttributesIter::next", "Unknown::new"])
         for (n, t, pat, opt) in (
    ("c18c_noctx_fp_prio", "quick", "36-byte message FINGERPRINT, PRIORITY", "no context"),
    ("c18c_default_fp_prio", "quick", "36-byte message FINGERPRINT, PRIORITY", "default context"),
    ("c18c_not_ignore_fp_prio", "quick", "36-byte message FINGERPRINT, PRIORITY", "not_ignore"),
    ("c18c_noctx_prio_fp_unk", "thorough", "44-byte message PRIORITY, FINGERPRINT, unknown 0x7F02", "no context"),
    ("c18c_not_ignore_prio_fp_unk", "thorough", "44-byte message PRIORITY, FINGERPRINT, unknown 0x7F02", "not_ignore"),
    ("c18c_unknown_data_one", "thorough", "28-byte message with one unknown attribute 0x7F02", "with_unknown_data"),
    ("c18c_not_ignore_unknown_data", "quick", "44-byte message PRIORITY, FINGERPRINT, unknown 0x7F02", "not_ignore + with_unknown_data"),
    ("c18c_unknown_nodata_one", "thorough", "28-byte message with one unknown attribute 0x7F02", "default context"))]
FPANY = "Fingerprint::validate -> fp_validate_any (arbitrary verdict per call, calls counted) and raw::get_input_text -> input_text_empty: the CRC primitive and the input selection are environment here (decided in C10/C04); what is decided is which attributes the decoder submits to validation and what a verdict does to the result"
_C18V = [H("stunrs", CTX + n, tier=t, timeout=2400, mem_gb=14, covers=None, stubs=[NOFMT, TID, REGSMALL, BUILDREC, FPANY], playback=False,
           bounds="36-byte message %s; attribute TYPES concrete, all value bytes / method / class / transaction id symbolic, both validation verdicts symbolic; decoder options: %s" % (pat, opt),
           funcs=["MessageDecoder::decode", "context::validate_attribute", "context::ignore_attribute", "RawMessage::decode", "RawAttributesIter::next"])
         for (n, t, pat, opt) in (
    ("c18v_validate_fp_prio", "quick", "FINGERPRINT, PRIORITY", "with_validation"),
    ("c18v_validate_not_ignore_fp_prio", "thorough", "FINGERPRINT, PRIORITY", "with_validation + not_ignore"),
    ("c18v_validate_fp_fp", "quick", "FINGERPRINT, FINGERPRINT", "with_validation"),
    ("c18v_validate_not_ignore_fp_fp", "thorough", "FINGERPRINT, FINGERPRINT", "with_validation + not_ignore"),
    ("c18v_novalidate_fp_fp", "thorough", "FINGERPRINT, FINGERPRINT", "default context"))]
_C18V[-1].covers = 1
_C18C += _C18V
_C18C += [H("stunrs", "context::verif_context_unit::" + n, tier="quick", timeout=900, mem_gb=8, covers=(2 if "fingerprint" in n else 1), stubs=[NOFMT, FPANY], playback=False,
            bounds="one %s attribute, every option set (context absent / validation / not_ignore / unknown data), both verdicts of the primitive" % k,
            funcs=["context::validate_attribute", "StunAttribute::as_verifiable_ref", "DecoderContextBuilder::{with_validation,not_ignore,with_unknown_data}"])
          for (n, k) in (("c18_validate_unit_fingerprint", "FINGERPRINT (verifiable)"), ("c18_validate_unit_priority", "PRIORITY (not verifiable)"))]
_C18C += [H("stunrs", "verif_values::c18_unknown_new_l%d" % n, tier=t, timeout=600, mem_gb=6, covers=None, stubs=[NOFMT],
            bounds="unknown attribute with a %d-byte raw value, every type code, with / without data" % n, funcs=["Unknown::new", "Unknown::attribute_data", "Unknown::attribute_type", "<Unknown as Clone>::clone"])
          for (n, t) in ((4, "quick"), (0, "thorough"), (7, "thorough"))]
prop("C18", [H("stunrs", CTX + "c18_registry_small_agrees", timeout=300, mem_gb=3, covers=None, bounds="7 type codes", funcs=["registry (generated)"])] + _C18C,
     outside="validation-on vs validation-off (needs MAC/CRC primitives on symbolic buffers); with_unknown_data (the query with a stored unknown value ran out of memory); symbolic attribute types / other layouts (11-19 GB); only the two concrete type patterns listed are decided",
     assumptions=["the decoded attributes are observed where the decoder hands them to StunMessageBuilder::with_attribute (recording stub)"])
DESCR["C18"] = {
    "level": "Bounded model checking of the real MessageDecoder::decode on two concrete attribute-type patterns (FINGERPRINT,PRIORITY and PRIORITY,FINGERPRINT,unknown) with symbolic contents, under the option sets {no context, default context, not_ignore}: a decoder without a context returns what the default context returns, namely the subsequence admitted by the RFC ordering rule, and not_ignore returns every wire attribute in order.",
    "note": "Partial claim: the validation relation and with_unknown_data are not decided (see outside). The ordering rule itself is decided for all sequences by the C09 kernel.",
}
NOT_APPLICABLE.pop("C18", None)

DATASTUB = "<Data as EncodeAttributeValue>::encode -> size-only stub (bounds check + returned size, no 64 KiB copy); buffers uninitialised"
_C14_64K = [H("stunrs", MSG + "c14_64k_l%d" % l, tier=t, timeout=1800, mem_gb=16, covers=None, stubs=[NOFMT, TID, DATASTUB],
              bounds="message = DATA(%d bytes) + DONT-FRAGMENT: %d attribute bytes (concrete), 65600-byte buffer" % (l, 4 + l + ((4 - (l & 3)) & 3) + 4),
              funcs=["MessageEncoder::encode (length accumulator, header length, returned size)"])
            for (l, t) in ((65496, "quick"), (65508, "quick"), (65524, "quick"), (65527, "thorough"), (65528, "quick"), (65535, "thorough"))]
# _C14_64K is not registered: even with concrete sizes and the copy stubbed the 65 600-byte buffer needs > 22 GB (measured)

# client-level halves of C06 / C11 / C15 (glue queries over the contract models)
PROPS["C11"] = PROPS["C11"] + _G_TIMEOUT1[:3] + [_G_TIMEOUT2[3], _G_TIMEOUT2[0], _G_TIMEOUT2[1]] + [_G_SEND[1], _G_SEND[2]]
PROPS["C06"] = PROPS["C06"] + [_G_TIMEOUT1[1], _G_TIMEOUT1[2], _G_SEND[2]]
PROPS["C15"] = PROPS["C15"] + _G_RTT + [_G_RECV[1], _G_TIMEOUT1[1]]
DESCR["C11"]["level"] += " Client level (agent-slice glue over the queue contract model): after send_request and after on_timeout with any subset of <= 2 deadlines due, a notification is the last event exactly when a request is still outstanding, names an outstanding request with the earliest deadline and carries the queue's remaining time."
DESCR["C11"]["note"] = "Kernel + glue. The 'consequently every request finishes' sentence is the composition argument of DESIGN.md §3 C11 over the verified pieces, not a further solver query. Trusted: Kani/CBMC, Instant by transmute, non-recursive Instant subtraction stub, environment models of the slice build."
DESCR["C06"]["level"] += " Client level (glue): one schedule step per expired deadline; Some(interval) -> exactly one OutputPacket that is the packet first sent, re-queued at (now, interval); None -> TransactionFailed and removal; send_request queues (send instant, first interval)."
DESCR["C15"]["level"] += " Client level (glue): an RTT sample is fed exactly when a response finishes a never-retransmitted request, with value now - sent; a retransmission clears the send instant (Karn); the estimate is reset iff more than 600 s passed since the previous request."

EXTRA = {"C14": {"mir2smt": True}}
META["C14"]["outside"] = "messages longer than 48 bytes under Kani; at the 64 KiB boundary only the length arithmetic is decided (second engine: every other call of the encode loop is havocked, memory effects ignored)"
DESCR["C14"]["level"] += " The 64 KiB half is decided by a second engine on the compiler's MIR of the working tree (one encode-loop iteration + epilogue from an arbitrary reachable accumulator value, bit-vector SMT, z3 with cvc5 cross-check): dev MIR — no overflow assertion is violable; release MIR — the accumulator and the returned size never wrap; sat answers are replayed natively in both profiles."
DESCR["C14"]["note"] = "Kani part: small messages (one attribute, <= 48 bytes) and every attribute encoder with every slice length. MIR part: integer arithmetic only; all calls except the ?-plumbing, try_from/try_into/into, checked_add/ok_or_else and common::padding are havocked (listed in evidence)."

PROPS["C19"] = PROPS["C19"] + [
    H("stunrs", VAL + "c19_algorithm_values", tier="thorough", timeout=900, mem_gb=10, covers=None, stubs=[NOFMT], bounds="all u16 algorithm ids, 0..3 parameter bytes", funcs=["Algorithm::new/from/algorithm/parameters/clone", "PasswordAlgorithm::new/algorithm/parameters"]),
    H("stunrs", VAL + "c19_transaction_id_and_cookie", timeout=600, mem_gb=4, covers=None, stubs=[NOFMT], bounds="all 12-byte ids, all 4-byte cookie candidates", funcs=["TransactionId::from/as_bytes/as_ref", "Cookie PartialEq impls"]),
    H("stunrs", VAL + "c19_message_builder_accessors", tier="thorough", timeout=900, mem_gb=10, covers=None, stubs=[NOFMT, TID], bounds="all methods, 0 or 1 attribute", funcs=["StunMessageBuilder::*", "StunMessage::method/class/attributes/get", "StunAttribute::is_*/as_*"]),
]

# PASSWORD-ALGORITHMS list walk / layout also decide sentences of C02 (layout, zero inner padding) and C03 (arbitrary bytes)
PROPS["C02"] = PROPS["C02"] + [_pa_layout(3, "quick"), _pa_layout(2, "thorough"), _pa_layout(4, "thorough")]
PROPS["C03"] = PROPS["C03"] + [_pa_walk(16, "thorough"), _pa_walk(24, "thorough")]

# whole-decode queries that also decide sentences of C09 ("attributes that are not admitted are neither returned nor validated")
PROPS["C09"] = PROPS["C09"] + [h for h in _C18V if h.name.endswith(("c18v_validate_fp_fp", "c18v_validate_fp_prio"))]

# message-level round trips through the real MessageEncoder / MessageDecoder (cheap since the message type is concrete)
PROPS["C01"] = PROPS["C01"] + [_msg_rt(k, "thorough") for k in _MSG_KINDS + ["unknown_attributes"]]

# send_request while the head deadline is overdue (late controller): C12 refusal is silent and exact, C05/C11 bookkeeping unchanged
PROPS["C11"] = PROPS["C11"] + [_G_SEND[11]]
PROPS["C05"] = PROPS["C05"] + [_G_SEND[10]]

# what the validating decoder hands to the MAC / CRC primitives (whole decode, recording stubs)
TEXTREC = "<MessageIntegrity as Verifiable>::verify -> mi_verify_rec and Fingerprint::validate -> fp_validate_rec (recording stubs: length of the text, its bytes 2..4 and the byte at one symbolic index; arbitrary verdict). The input selection itself (raw::get_input_text) is the real code."
_C10V = [H("stunrs", CTX + n, tier=t, timeout=1800, mem_gb=12, covers=None, stubs=[NOFMT, TID, REGSMALL, BUILDREC, TEXTREC], playback=False,
           bounds="60-byte message MESSAGE-INTEGRITY | unknown 0x7F02 (3-byte value + 1 padding byte) | FINGERPRINT; framing and message type concrete, all values / transaction id symbolic, both verdicts symbolic; decoder: with_validation%s" % o,
           funcs=["MessageDecoder::decode", "context::validate_attribute", "raw::get_input_text", "context::ignore_attribute", "RawAttributesIter::next"])
         for (n, t, o) in (("c10v_mi_ignored_fp", "quick", ""), ("c10v_mi_kept_fp_not_ignore", "thorough", " + not_ignore"))]
PROPS["C10"] = PROPS["C10"] + _C10V
PROPS["C04"] = PROPS["C04"] + _C10V
PROPS["C09"] = PROPS["C09"] + [_C10V[0]]

# C11 rests on the invariant "queue ids == table ids"; the receive step must preserve it (a stale deadline is a wrong notification later)
PROPS["C11"] = PROPS["C11"] + [_G_RECV[1]]

# C13 unit level: order / replacement discipline of the application's attribute list (real stun-agent message.rs over the shim)
_C13_ADD = [H("agentshim", "message::verif_message::c13_add_order_" + n, tier=t, timeout=900, mem_gb=8, covers=None, stubs=[ENV2M], playback=False,
              bounds="three additions with the concrete type pattern %s (values symbolic), optionally a FINGERPRINT" % n.upper(),
              funcs=["StunAttributes::add", "From<StunAttributes> for Vec<StunAttribute>"])
            for (n, t) in (("aba", "quick"), ("aab", "quick"), ("abb", "thorough"), ("abc", "thorough"), ("aaa", "thorough"))]
PROPS["C13"] = PROPS["C13"] + _C13_ADD

# symbolic slot types (FINGERPRINT / PRIORITY / unknown per slot): tractable since the message type is concrete
for _h in _C18[1:]:
    _h.tier = "thorough"
    if _h.name.endswith(("c18_decode_not_ignore", "c18_decode_not_ignore_mi", "c18_decode_unknown_block_data")):
        _h.covers = 1   # with not_ignore / an unknown first block the second slot is always admitted
    _h.bounds = _h.bounds.replace("/ method / class / transaction id symbolic", "/ transaction id symbolic, message type concrete")
PROPS["C18"] = PROPS["C18"] + _C18[1:]

# encoder-side MAC / CRC input (message-level encode with recording HMAC stubs, c04_tail_*): re-measured with a concrete
# message type: still 17 GB / > 20 min for the MI-only tail; not registered.

# C08 tiers after the per-instance unwind bounds (every receive query is now <= 140 s): the general instances
# (mechanism state and transport symbolic) replace their concrete twins in the quick tier
_C08_QUICK = ("c08_prepare_without_params_or_indication", "c08_prepare_first_app0", "c08_recv_401_realm_nonce_algs", "c08_recv_401_second_challenge", "c08_recv_401_no_nonce",
              "c08_recv_438_nonce_mi", "c08_recv_438_nonce", "c08_recv_420_mi", "c08_recv_success_mi", "c08_recv_success_wrong_kind", "c08_recv_success_plain", "c08_recv_indication", "c08_recv_request")
for _h in _C08:
    _h.tier = "quick" if _h.name.split("::")[-1] in _C08_QUICK else "thorough"
    if _h.name.endswith("c08_recv_401_with_sha"):
        _h.mem_gb = 24

# ---- level texts brought up to date with what is registered (second round)
DESCR["C18"] = {
    "level": "Bounded model checking of the real MessageDecoder::decode (concrete message type and TLV framing, symbolic values; attribute types concrete per query or symbolic over {FINGERPRINT, PRIORITY, unknown}) under the option sets no context / default / not_ignore / with_unknown_data / with_validation: no context == default context; the default result is the subsequence admitted by the ordering rule and not_ignore returns every wire attribute in order; with_unknown_data adds exactly the raw value bytes of unknown attributes (also behind an integrity attribute with not_ignore); with validation on (CRC primitive stubbed by an arbitrary counted verdict) the decode can only turn Ok into Err, exactly the admitted verifiable attributes are validated, and Ok yields the attributes of the non-validating decode. Unit level: validate_attribute under every option set, Unknown::new with / without data.",
    "note": "Message type concrete (type decoding: C02 c02_message_type_bits); 2-3 attribute messages; MAC/CRC primitives are stubs here (C04/C10 decide what they are fed). Trusted: Kani/CBMC, the 4-kind registry restriction (agreement asserted), the recording builder stub.",
}
DESCR["C09"]["level"] += " At whole-decode level (real MessageDecoder::decode, validation on, primitives stubbed and counted): an attribute that is not admitted is neither returned nor handed to validation (second FINGERPRINT; attribute after MESSAGE-INTEGRITY)."
DESCR["C10"]["level"] += " (iv) whole decode with validation: the text handed to the CRC check is the message up to the FINGERPRINT attribute (padding of a preceding ignored attribute included) with the length field covering it, observed through a recording stub with the real input selection."
DESCR["C04"]["level"] += " At whole-decode level the text handed to <MessageIntegrity as Verifiable>::verify is observed (recording stub, real input selection): the message up to the integrity attribute with the length field covering it and nothing after it."
DESCR["C01"]["level"] += " PASSWORD-ALGORITHMS lists: the decode walk (every buffer up to 24 bytes, storage stubbed by recorders) and the encode layout (1-4 entries, parameters supplied by a stub) against the RFC 8489 14.11 layout. Message level: one-attribute messages through the real encoder and decoder with a concrete (method, class) per instance."
DESCR["C13"]["level"] += " Unit level on the real message.rs: three additions with every duplicate pattern (ABA, AAB, ABB, ABC, AAA): one entry per type in first-insertion order holding the last value."
DESCR["C12"]["level"] += " Includes send_request at an instant at which the head deadline is already overdue (late controller): the refusal is still exact and silent."
DESCR["C17"]["level"] += " Client step: a rejected buffer either never reaches the credential mechanism or is discarded by it (the mechanisms change state exactly when they return something other than Discarded)."
DESCR["C19"]["level"] += " Includes the consuming into_iter of a PasswordAlgorithms value whose clone is still alive."
META["C18"]["outside"] = "messages with more than 3 attributes or attribute kinds other than MESSAGE-INTEGRITY / SHA256 / FINGERPRINT / PRIORITY / unknown; symbolic message type at whole-decode level (type decoding is C02's); the MAC/CRC primitives (stubbed by arbitrary verdicts here); the validation relation is decided per concrete pattern, not for arbitrary bytes"
META["C04"]["outside"] = META["C04"]["outside"].replace("the long-term key derivation string (assumed; covered by the RFC 5769/8489 vectors of the existing suite)", "the long-term key derivation string (the query with the real format! did not finish in 40 min: not decided; covered by the RFC 5769/8489 vectors of the existing suite)")

# every property that uses a client-step query also runs the induction base (fresh client satisfies the invariant); it is the
# cheapest slice query and serves as the build probe
for _k, _hs in PROPS.items():
    if any(h.build == "slice" for h in _hs) and not any(h.name.endswith("glue_base") for h in _hs):
        PROPS[_k] = _hs + [_G_SEND[0]]

# two timer calls (retransmission, then final time-out) with the mechanism's consuming marker: behaviour-based form of the C07 clause
_G_TWO = [_g("glue_timeout_two_steps_st", timeout=2400, mem=16, bounds="1 live request, short-term mechanism model, two timer calls (retransmission then final time-out), marker arbitrary", covers=1),
          _g("glue_timeout_two_steps_lt", tier="thorough", timeout=2400, mem=16, bounds="1 live request, long-term mechanism model, two timer calls, marker arbitrary", covers=1)]
PROPS["C07"] = PROPS["C07"] + _G_TWO
PROPS["C17"] = PROPS["C17"] + [_G_TWO[1]]
PROPS["C08"] = PROPS["C08"] + [_G_TWO[1]]
DESCR["C14"]["level"] += " Third obligation (both MIR profiles): an iteration ends on the failing side of a 16-bit range check (u16::try_from / checked_add) only when accumulator + 4 + value size + padding really exceeds 65535, i.e. every message that fits is accepted; a reachability witness for that failing side is required."

# C06's client-level half takes the deadline queue by its contract ("check pops exactly the entries that are due"): the kernel
# queries that decide that contract on the real queue belong to C06 as well (a queue that reports entries early = early retransmission)
PROPS["C06"] = PROPS["C06"] + [h for h in PROPS["C11"] if h.name.split("::")[-1] in ("c11_check_n1", "c11_check_n2", "c11_next_n1")]

# ---- final quick-tier cut (the check machine stops a quick command after 900 s; target: <= 300 s here). A query that costs more
# than ~150 s stays in the quick tier of at most the properties that need it most; everything moved is still in the thorough tier.
def _retier(pid, to_thorough=(), to_quick=()):
    out = []
    for h in PROPS[pid]:
        n = h.name.split("::")[-1]
        if n in to_thorough and h.tier == "quick":
            h = copy.copy(h)
            h.tier = "thorough"
        if n in to_quick and h.tier != "quick":
            h = copy.copy(h)
            h.tier = "quick"
        out.append(h)
    PROPS[pid] = out


import copy
_retier("C05", to_thorough=("glue_timeout_k1_due_unreliable", "glue_timeout_k1_due_reliable"))
_retier("C06", to_thorough=("glue_timeout_k1_due_reliable",))
_retier("C11", to_thorough=("glue_timeout_k1_due_reliable",))
_retier("C12", to_thorough=("glue_timeout_k1_due_reliable",))
_retier("C07", to_thorough=("glue_timeout_k1_due_st",))
_retier("C03", to_thorough=("c19_nonce_cookie_k2_c1", "c19_nonce_cookie_k3_c1", "c19_nonce_cookie_ascii_k4"))
_retier("C19", to_thorough=("c19_nonce_cookie_k2_c1", "c19_nonce_cookie_ascii_k4", "c19_unknown_attributes_clone_mutate"))
_retier("C14", to_thorough=("c14_msg_xor_mapped_v4",))
_retier("C02", to_thorough=("c14_msg_xor_mapped_v4", "c14_msg_even_port", "c14_msg_data3"))
for _h in PROPS["C19"]:
    if _h.name.endswith("c19_unknown_attributes_clone_mutate"):
        _h.timeout = 1200

# ---- thorough-tier trims after the last full passes
# c06_step_rto500_rc10_i10 (final slot of the 10-transmission schedule) does not finish in 40 min; the final slot is decided for Rc = 1, 2, 3 and 7
PROPS["C06"] = [h for h in PROPS["C06"] if not h.name.endswith("c06_step_rto500_rc10_i10")]
# three-attribute C13 patterns need ~30 GB each (one at a time): three representatives stay (non-adjacent duplicate, adjacent duplicate, three tail kinds)
_C13_DROP = ("p023", "p204", "p305", "p450", "p112", "p034", "p501", "p345", "p432")
PROPS["C13"] = [h for h in PROPS["C13"] if not h.name.endswith(_C13_DROP)]
PROPS["C07"] = [h for h in PROPS["C07"] if not h.name.endswith(_C13_DROP)]
DESCR["C14"]["technique"] = "bounded model checking of the real Rust code (Kani/CBMC, SAT verdict over all inputs within the stated bounds) for buffers <= 48 bytes; MIR -> SMT bit-vector encoding of the encoder's length arithmetic (z3, cross-checked with cvc5, native replay) for the 64 KiB limit"
# c08_recv_401_with_sha (401 carrying REALM, NONCE, PASSWORD-ALGORITHMS and MESSAGE-INTEGRITY-SHA256: 5 attributes) exhausts 32 GB even with the
# tight unwind bound; the 4-attribute 401 shapes and the SHA256 variants of 438 / success are registered
for _k in ("C08", "C17"):
    PROPS[_k] = [h for h in PROPS[_k] if not h.name.endswith("c08_recv_401_with_sha")]
# c11_remove_n1 / n2 (BinaryHeap::retain + 12-byte id comparison) need 40-60 min each and timed out in the last full pass
# under load: not registered.  remove() is the one-line `retain(|item| id != transaction_id)`; its effect is observed at client level (queue model).
PROPS["C11"] = [h for h in PROPS["C11"] if "c11_remove_n" not in h.name]
# memory: last thorough pass (run side by side with another check) lost three C01 queries to the memory cap
PROPS["C01"] = [h for h in PROPS["C01"] if not h.name.endswith("c01_msg_unknown_attributes")]   # UnknownAttributes::add at message level: out of memory (as noted at _MSG_KINDS)
for _k in ("C01", "C02"):
    for _h in PROPS[_k]:
        _n = _h.name.split("::")[-1]
        if _n.startswith(("attr_nonce_l", "attr_realm_l", "attr_user_name_l", "attr_error_code_l")):
            _h.mem_gb = max(_h.mem_gb, 12)
        if _n.startswith("attr_unknown_attributes"):
            _h.mem_gb = max(_h.mem_gb, 20)
# attr_nonce_l4 and attr_unknown_attributes_n2 (the largest size instances of their kinds) ended on the memory cap in the last two
# thorough passes: unregistered; NONCE is decided for lengths 1 and 2, UNKNOWN-ATTRIBUTES for one entry
for _k in ("C01", "C02"):
    PROPS[_k] = [h for h in PROPS[_k] if not h.name.endswith(("attr_nonce_l4", "attr_unknown_attributes_n2"))]
