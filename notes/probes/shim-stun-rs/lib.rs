//! Nondeterministic environment model of the stun_rs API surface used by stun-agent's client.rs
use std::fmt;
#[derive(Debug)] pub struct StunError;
impl fmt::Display for StunError { fn fmt(&self, _f: &mut fmt::Formatter) -> fmt::Result { Ok(()) } }
pub mod error {
    use std::fmt;
    #[derive(Debug)] pub struct StunEncodeError;
    impl fmt::Display for StunEncodeError { fn fmt(&self, _f: &mut fmt::Formatter) -> fmt::Result { Ok(()) } }
    #[derive(Debug)] pub struct StunDecodeError;
    impl fmt::Display for StunDecodeError { fn fmt(&self, _f: &mut fmt::Formatter) -> fmt::Result { Ok(()) } }
}
pub mod attributes { pub mod stun {
    #[derive(Debug, Clone)] pub struct UserName;
    impl UserName { pub fn new<S: AsRef<str>>(_s: S) -> Result<Self, crate::StunError> { if kani::any() { Ok(UserName) } else { Err(crate::StunError) } } }
} }
#[derive(Clone, Copy, PartialEq, Eq, Hash, PartialOrd, Ord, Debug)]
pub struct TransactionId(pub u8);
static mut NEXT_TID: u8 = 0;
impl Default for TransactionId { fn default() -> Self { unsafe { NEXT_TID += 1; TransactionId(NEXT_TID) } } }
#[derive(Debug, Clone, Copy, PartialEq, Eq)]
pub enum MessageClass { Request, Indication, SuccessResponse, ErrorResponse }
#[derive(Debug, Clone, Copy, PartialEq, Eq, Default)]
pub struct MessageMethod(pub u16);
#[derive(Debug, Clone)] pub struct HMACKey;
impl HMACKey { pub fn new_short_term<S: AsRef<str>>(_p: S) -> Result<Self, StunError> { if kani::any() { Ok(HMACKey) } else { Err(StunError) } } }
#[derive(Debug)]
pub struct StunMessage { pub class: MessageClass, pub tid: TransactionId }
impl StunMessage {
    pub fn class(&self) -> MessageClass { self.class }
    pub fn transaction_id(&self) -> &TransactionId { &self.tid }
}
#[derive(Debug, Default, Clone)] pub struct MessageDecoder;
impl MessageDecoder {
    pub fn decode(&self, _buffer: &[u8]) -> Result<(StunMessage, usize), error::StunDecodeError> {
        if kani::any() { return Err(error::StunDecodeError); }
        let c: u8 = kani::any();
        let class = match c & 3 { 0 => MessageClass::Request, 1 => MessageClass::Indication, 2 => MessageClass::SuccessResponse, _ => MessageClass::ErrorResponse };
        Ok((StunMessage { class, tid: { let t: u8 = kani::any(); kani::assume(t <= 3); TransactionId(t) } }, 20))
    }
}
#[derive(Debug, Default, Clone)] pub struct MessageEncoder;
impl MessageEncoder {
    pub fn encode(&self, buffer: &mut [u8], _msg: &StunMessage) -> Result<usize, error::StunEncodeError> {
        if buffer.len() < 20 || kani::any() { Err(error::StunEncodeError) } else { Ok(20) }
    }
}
