#!/bin/bash
# run_all.sh <tier> [ids...] : runs the registered checks one after the other against /repo and prints a summary
T=${1:-quick}; shift
IDS=${@:-$(python3 -c "import json;print(' '.join(c['property_id'] for c in json.load(open('/verif/MANIFEST.json'))['checks']))")}
mkdir -p /tmp/runall
for id in $IDS; do
  s=$(date +%s)
  /verif/bin/check $id --tier $T > /tmp/runall/$id.$T.log 2>&1
  rc=$?
  e=$(date +%s)
  echo "$id tier=$T exit=$rc wall=$((e-s))s $(tail -1 /tmp/runall/$id.$T.log)" | tee -a /tmp/runall/summary.$T.txt
done
