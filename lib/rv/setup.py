"""setup_cmd: warm the per-build Kani target dirs (dependencies only are reused)."""
import os
import shutil
import subprocess
import sys

from . import driver, props


def main():
    os.makedirs(driver.CACHE, exist_ok=True)
    sc = driver.Scratch("setup")
    rc = 0
    try:
        sc.create()
        builds = sorted(set(h.build for hs in props.PROPS.values() for h in hs))
        driver.inject(sc, builds)
        for b in builds:
            h = next(h for hs in props.PROPS.values() for h in hs if h.build == b)
            warm = os.path.join(driver.CACHE, "tgt-" + b)
            shutil.rmtree(warm, ignore_errors=True)
            spec = driver.BUILDS[b]
            cdir = os.path.normpath(os.path.join(sc.src, spec["dir"]))
            cmd = ["cargo", "kani", "-Z", "stubbing", "--only-codegen", "--harness", h.name, "--exact",
                   "--target-dir", warm]
            if spec["features"]:
                cmd += ["--features", spec["features"]]
            env = dict(os.environ, CARGO_NET_OFFLINE="true")
            p = subprocess.run(cmd, cwd=cdir, env=env, stdout=subprocess.PIPE, stderr=subprocess.STDOUT, text=True)
            ok = p.returncode == 0
            print("setup: warm target for build %-7s %s" % (b, "ok" if ok else "FAILED (checks will build from scratch)"))
            if not ok:
                print("\n".join(p.stdout.splitlines()[-15:]))
                shutil.rmtree(warm, ignore_errors=True)
        # native differential check of the string stubs' contract (precis_ascii / qs_plain)
        import json
        tdir = os.path.join(sc.src, "stun-rs", "tests")
        os.makedirs(tdir, exist_ok=True)
        shutil.copy(os.path.join(driver.VERIF, "native", "stub_contract.rs"), os.path.join(tdir, "verif_stub_contract.rs"))
        env = dict(os.environ, CARGO_NET_OFFLINE="true", CARGO_TARGET_DIR=os.path.join(sc.base, "tgt_native"))
        p = subprocess.run(["cargo", "test", "--offline", "-p", "stun-rs", "--test", "verif_stub_contract"], cwd=sc.src, env=env,
                           stdout=subprocess.PIPE, stderr=subprocess.STDOUT, text=True)
        ok = "test result: ok. 1 passed" in p.stdout
        with open(os.path.join(driver.CACHE, "stub_contract.json"), "w") as f:
            json.dump({"ok": ok, "what": "precis_ascii/qs_plain contract on all 1- and 2-character plain-ASCII strings through UserName/Realm/Nonce::new and the decoder", "tail": p.stdout[-300:] if not ok else ""}, f)
        print("setup: string-stub contract (native differential) %s" % ("ok" if ok else "FAILED"))
    finally:
        sc.destroy()
    return rc
