// C01 / C02 (attribute level): for every attribute kind, an arbitrary in-domain value is encoded by
// the real EncodeAttributeValue::encode, the bytes are compared with a reference written from the
// RFC text (no code shared with the crate), bytes beyond the returned size must be untouched, and
// the real DecodeAttributeValue::decode of exactly the written bytes must give the value back.
// Crate-level child module: the pub(crate) traits/contexts are reachable.
#![allow(unused_imports, dead_code)]
use crate::attributes::{DecodeAttributeValue, EncodeAttributeValue};
use crate::context::{AttributeDecoderContext, AttributeEncoderContext};
use crate::support_common::*;
use crate::{Algorithm, AlgorithmId, StunAttributeType};
use std::net::{IpAddr, Ipv4Addr, Ipv6Addr, SocketAddr};

pub const CAP: usize = 44;

pub struct Enc {
    pub out: [u8; CAP],
    pub size: usize,
}

pub fn any_header() -> [u8; 20] {
    let mut h: [u8; 20] = kani::any();
    put_header(&mut h, 0);
    h
}

/// encode into a CAP-byte buffer pre-filled with a symbolic byte; bytes beyond the returned size
/// must still hold the fill (checked at one symbolic index = at every index)
pub fn enc<A: EncodeAttributeValue>(a: &A, msg: &[u8; 20]) -> Option<Enc> {
    let fill: u8 = kani::any();
    let mut out = [fill; CAP];
    let r = a.encode(AttributeEncoderContext::new(None, msg, &mut out));
    match r {
        Ok(size) => {
            assert!(size <= CAP);
            let j: usize = kani::any();
            kani::assume(j < CAP);
            if j >= size {
                assert!(out[j] == fill, "C14/C02: bytes beyond the returned size are untouched");
            }
            Some(Enc { out, size })
        }
        Err(e) => {
            std::mem::forget(e);
            assert!(false, "C01: an in-domain value encodes into a large enough buffer");
            None
        }
    }
}

pub fn dec<A: DecodeAttributeValue>(e: &Enc, msg: &[u8; 20]) -> Option<A> {
    match A::decode(AttributeDecoderContext::new(None, msg, &e.out[..e.size])) {
        Ok((a, s)) => {
            assert!(s == e.size, "C01: decoder consumes exactly what the encoder wrote");
            Some(a)
        }
        Err(err) => {
            std::mem::forget(err);
            assert!(false, "C01: the encoder's output decodes");
            None
        }
    }
}

fn any_v4() -> (SocketAddr, [u8; 4], u16) {
    let ip: [u8; 4] = kani::any();
    let port: u16 = kani::any();
    (SocketAddr::new(IpAddr::V4(Ipv4Addr::from(ip)), port), ip, port)
}
fn any_v6() -> (SocketAddr, [u8; 16], u16) {
    let ip: [u8; 16] = kani::any();
    let port: u16 = kani::any();
    (SocketAddr::new(IpAddr::V6(Ipv6Addr::from(ip)), port), ip, port)
}

// --------------------------------------------------------------------------------------------
// A. plain address kinds  (RFC 8489 §14.1: 0x00 | family | port | address)
// --------------------------------------------------------------------------------------------
macro_rules! addr_kind {
    ($v4:ident, $v6:ident, $ty:path, $code:expr) => {
        #[kani::proof]
        #[kani::unwind(22)]
        #[kani::stub(alloc::fmt::format, nofmt)]
        fn $v4() {
            assert!(<$ty as StunAttributeType>::get_type().as_u16() == $code);
            let msg = any_header();
            let (sa, ip, port) = any_v4();
            let a = <$ty>::from(sa);
            if let Some(e) = enc(&a, &msg) {
                assert!(e.size == 8);
                assert!(e.out[0] == 0 && e.out[1] == 1);
                assert!(e.out[2] == (port >> 8) as u8 && e.out[3] == port as u8);
                let j: usize = kani::any();
                kani::assume(j < 4);
                assert!(e.out[4 + j] == ip[j]);
                if let Some(b) = dec::<$ty>(&e, &msg) {
                    assert!(b.socket_address() == &sa);
                }
            }
        }
        #[kani::proof]
        #[kani::unwind(22)]
        #[kani::stub(alloc::fmt::format, nofmt)]
        fn $v6() {
            let msg = any_header();
            let (sa, ip, port) = any_v6();
            let a = <$ty>::from(sa);
            if let Some(e) = enc(&a, &msg) {
                assert!(e.size == 20);
                assert!(e.out[0] == 0 && e.out[1] == 2);
                assert!(e.out[2] == (port >> 8) as u8 && e.out[3] == port as u8);
                let j: usize = kani::any();
                kani::assume(j < 16);
                assert!(e.out[4 + j] == ip[j]);
                if let Some(b) = dec::<$ty>(&e, &msg) {
                    assert!(b.socket_address().port() == port);
                    match b.socket_address().ip() {
                        IpAddr::V6(x) => assert!(x.octets()[j] == ip[j]),
                        _ => assert!(false),
                    }
                }
            }
        }
    };
}
addr_kind!(attr_mapped_address_v4, attr_mapped_address_v6, crate::attributes::stun::MappedAddress, 0x0001);
addr_kind!(attr_alternate_server_v4, attr_alternate_server_v6, crate::attributes::stun::AlternateServer, 0x8023);
addr_kind!(attr_other_address_v4, attr_other_address_v6, crate::attributes::discovery::OtherAddress, 0x802c);
addr_kind!(attr_response_origin_v4, attr_response_origin_v6, crate::attributes::discovery::ResponseOrigin, 0x802b);

// --------------------------------------------------------------------------------------------
// B. XOR address kinds (RFC 8489 §14.2): X-Port = port ^ 0x2112; X-Address = addr ^ (cookie [|| tid])
// --------------------------------------------------------------------------------------------
macro_rules! xor_kind {
    ($v4:ident, $v6:ident, $ty:path, $code:expr) => {
        #[kani::proof]
        #[kani::unwind(22)]
        #[kani::stub(alloc::fmt::format, nofmt)]
        fn $v4() {
            assert!(<$ty as StunAttributeType>::get_type().as_u16() == $code);
            let msg = any_header();
            let (sa, ip, port) = any_v4();
            let a = <$ty>::from(sa);
            if let Some(e) = enc(&a, &msg) {
                assert!(e.size == 8);
                assert!(e.out[0] == 0 && e.out[1] == 1);
                assert!(e.out[2] == ((port >> 8) as u8 ^ 0x21) && e.out[3] == (port as u8 ^ 0x12));
                let cookie = [0x21u8, 0x12, 0xa4, 0x42];
                let j: usize = kani::any();
                kani::assume(j < 4);
                assert!(e.out[4 + j] == ip[j] ^ cookie[j]);
                if let Some(b) = dec::<$ty>(&e, &msg) {
                    assert!(b.socket_address() == &sa);
                }
            }
        }
        #[kani::proof]
        #[kani::unwind(22)]
        #[kani::stub(alloc::fmt::format, nofmt)]
        fn $v6() {
            let msg = any_header();
            let (sa, ip, port) = any_v6();
            let a = <$ty>::from(sa);
            if let Some(e) = enc(&a, &msg) {
                assert!(e.size == 20);
                assert!(e.out[0] == 0 && e.out[1] == 2);
                assert!(e.out[2] == ((port >> 8) as u8 ^ 0x21) && e.out[3] == (port as u8 ^ 0x12));
                let j: usize = kani::any();
                kani::assume(j < 16);
                // the XOR key is the 16 bytes cookie || transaction id = message bytes 4..20
                assert!(e.out[4 + j] == ip[j] ^ msg[4 + j]);
                if let Some(b) = dec::<$ty>(&e, &msg) {
                    assert!(b.socket_address().port() == port);
                    match b.socket_address().ip() {
                        IpAddr::V6(x) => assert!(x.octets()[j] == ip[j]),
                        _ => assert!(false),
                    }
                }
            }
        }
    };
}
xor_kind!(attr_xor_mapped_address_v4, attr_xor_mapped_address_v6, crate::attributes::stun::XorMappedAddress, 0x0020);
xor_kind!(attr_xor_peer_address_v4, attr_xor_peer_address_v6, crate::attributes::turn::XorPeerAddress, 0x0012);
xor_kind!(attr_xor_relayed_address_v4, attr_xor_relayed_address_v6, crate::attributes::turn::XorRelayedAddress, 0x0016);

// --------------------------------------------------------------------------------------------
// C. big-endian integers
// --------------------------------------------------------------------------------------------
macro_rules! int_kind {
    ($name:ident, $ty:path, $int:ty, $n:expr, $code:expr) => {
        #[kani::proof]
        #[kani::unwind(10)]
        #[kani::stub(alloc::fmt::format, nofmt)]
        fn $name() {
            assert!(<$ty as StunAttributeType>::get_type().as_u16() == $code);
            let msg = any_header();
            let v: $int = kani::any();
            let a = <$ty>::new(v);
            if let Some(e) = enc(&a, &msg) {
                assert!(e.size == $n);
                let j: usize = kani::any();
                kani::assume(j < $n);
                assert!(e.out[j] == (v >> (8 * ($n - 1 - j))) as u8, "C02: network byte order");
                if let Some(b) = dec::<$ty>(&e, &msg) {
                    assert!(b == v);
                }
            }
        }
    };
}
int_kind!(attr_priority, crate::attributes::ice::Priority, u32, 4, 0x0024);
int_kind!(attr_ice_controlled, crate::attributes::ice::IceControlled, u64, 8, 0x8029);
int_kind!(attr_ice_controlling, crate::attributes::ice::IceControlling, u64, 8, 0x802a);
int_kind!(attr_lifetime, crate::attributes::turn::LifeTime, u32, 4, 0x000d);
int_kind!(attr_response_port, crate::attributes::discovery::ResponsePort, u16, 2, 0x0027);

// --------------------------------------------------------------------------------------------
// D. empty kinds
// --------------------------------------------------------------------------------------------
#[kani::proof]
#[kani::unwind(4)]
#[kani::stub(alloc::fmt::format, nofmt)]
fn attr_empty_kinds() {
    use crate::attributes::ice::UseCandidate;
    use crate::attributes::turn::DontFragment;
    assert!(UseCandidate::get_type().as_u16() == 0x0025);
    assert!(DontFragment::get_type().as_u16() == 0x001a);
    let msg = any_header();
    if let Some(e) = enc(&UseCandidate::default(), &msg) {
        assert!(e.size == 0);
        assert!(dec::<UseCandidate>(&e, &msg).is_some());
    }
    if let Some(e) = enc(&DontFragment::default(), &msg) {
        assert!(e.size == 0);
        assert!(dec::<DontFragment>(&e, &msg).is_some());
    }
}

// --------------------------------------------------------------------------------------------
// G. small structured kinds
// --------------------------------------------------------------------------------------------
#[kani::proof]
#[kani::unwind(10)]
#[kani::stub(alloc::fmt::format, nofmt)]
fn attr_channel_number() {
    use crate::attributes::turn::ChannelNumber;
    assert!(ChannelNumber::get_type().as_u16() == 0x000c);
    let msg = any_header();
    let n: u16 = kani::any();
    let a = ChannelNumber::new(n);
    if let Some(e) = enc(&a, &msg) {
        // RFC 8656 §18.1: Channel Number (16) | RFFU = 0 (16)
        assert!(e.size == 4 && e.out[0] == (n >> 8) as u8 && e.out[1] == n as u8 && e.out[2] == 0 && e.out[3] == 0);
        if let Some(b) = dec::<ChannelNumber>(&e, &msg) {
            assert!(b.number() == n);
        }
        // RFFU bits are ignored on receipt
        let mut e2 = Enc { out: e.out, size: e.size };
        e2.out[2] = kani::any();
        e2.out[3] = kani::any();
        if let Some(b) = dec::<ChannelNumber>(&e2, &msg) {
            assert!(b.number() == n, "C02: reserved bits do not change what is decoded");
            assert!(b == a, "C02: reserved bits do not change what is decoded (the decoded value is the one built from the same channel number)");
        }
    }
}

#[kani::proof]
#[kani::unwind(10)]
#[kani::stub(alloc::fmt::format, nofmt)]
fn attr_even_port() {
    use crate::attributes::turn::EvenPort;
    assert!(EvenPort::get_type().as_u16() == 0x0018);
    let msg = any_header();
    let r: bool = kani::any();
    let a = EvenPort::new(r);
    if let Some(e) = enc(&a, &msg) {
        // RFC 8656 §18.6: R (1 bit) | RFFU (7 bits) = 0
        assert!(e.size == 1 && e.out[0] == if r { 0x80 } else { 0x00 });
        if let Some(b) = dec::<EvenPort>(&e, &msg) {
            assert!(b.reserve() == r);
        }
        let mut e2 = Enc { out: e.out, size: 1 };
        let low: u8 = kani::any();
        e2.out[0] = (e.out[0] & 0x80) | (low & 0x7f);
        if let Some(b) = dec::<EvenPort>(&e2, &msg) {
            assert!(b.reserve() == r, "C02: RFFU bits ignored");
            assert!(b == a, "C02: RFFU bits do not change the decoded value");
        }
    }
}

#[kani::proof]
#[kani::unwind(10)]
#[kani::stub(alloc::fmt::format, nofmt)]
fn attr_requested_transport() {
    use crate::attributes::turn::RequestedTrasport;
    use crate::protocols::ProtocolNumber;
    use crate::Decode;
    assert!(RequestedTrasport::get_type().as_u16() == 0x0019);
    let msg = any_header();
    let p: u8 = kani::any();
    let pn = match ProtocolNumber::decode(&[p]) {
        Ok((x, _)) => x,
        Err(_) => {
            assert!(false);
            return;
        }
    };
    assert!(pn.as_u8() == p);
    let a = RequestedTrasport::new(pn);
    if let Some(e) = enc(&a, &msg) {
        // RFC 8656 §18.7: Protocol (8) | RFFU (24) = 0
        assert!(e.size == 4 && e.out[0] == p && e.out[1] == 0 && e.out[2] == 0 && e.out[3] == 0);
        if let Some(b) = dec::<RequestedTrasport>(&e, &msg) {
            assert!(b.protocol().as_u8() == p);
        }
        let mut e2 = Enc { out: e.out, size: 4 };
        e2.out[1] = kani::any();
        e2.out[2] = kani::any();
        e2.out[3] = kani::any();
        if let Some(b) = dec::<RequestedTrasport>(&e2, &msg) {
            assert!(b.protocol().as_u8() == p, "C02: RFFU ignored");
            assert!(b == a, "C02: RFFU bits do not change the decoded value");
        }
    }
}

macro_rules! family_kind {
    ($name:ident, $ty:path, $code:expr) => {
        #[kani::proof]
        #[kani::unwind(10)]
        #[kani::stub(alloc::fmt::format, nofmt)]
        fn $name() {
            use crate::AddressFamily;
            assert!(<$ty as StunAttributeType>::get_type().as_u16() == $code);
            let msg = any_header();
            let six: bool = kani::any();
            let fam = if six { AddressFamily::IPv6 } else { AddressFamily::IPv4 };
            let a = <$ty>::new(fam);
            if let Some(e) = enc(&a, &msg) {
                // RFC 8656 §18.8: Family (8) | Reserved (24) = 0
                assert!(e.size == 4 && e.out[0] == if six { 2 } else { 1 } && e.out[1] == 0 && e.out[2] == 0 && e.out[3] == 0);
                if let Some(b) = dec::<$ty>(&e, &msg) {
                    assert!(b.family() == fam);
                }
                let mut e2 = Enc { out: e.out, size: 4 };
                e2.out[1] = kani::any();
                e2.out[2] = kani::any();
                e2.out[3] = kani::any();
                if let Some(b) = dec::<$ty>(&e2, &msg) {
                    assert!(b.family() == fam, "C02: reserved bytes ignored");
                    assert!(b == a, "C02: reserved bytes do not change the decoded value");
                }
            }
        }
    };
}
family_kind!(attr_requested_address_family, crate::attributes::turn::RequestedAddressFamily, 0x0017);
family_kind!(attr_additional_address_family, crate::attributes::turn::AdditionalAddressFamily, 0x8000);

#[kani::proof]
#[kani::unwind(10)]
#[kani::stub(alloc::fmt::format, nofmt)]
fn attr_reservation_token() {
    use crate::attributes::turn::ReservationToken;
    assert!(ReservationToken::get_type().as_u16() == 0x0022);
    let msg = any_header();
    let t: [u8; 8] = kani::any();
    let a = ReservationToken::from(t);
    if let Some(e) = enc(&a, &msg) {
        assert!(e.size == 8);
        let j: usize = kani::any();
        kani::assume(j < 8);
        assert!(e.out[j] == t[j]);
        if let Some(b) = dec::<ReservationToken>(&e, &msg) {
            assert!(b.token()[j] == t[j] && b.token().len() == 8);
        }
    }
}

#[kani::proof]
#[kani::unwind(10)]
#[kani::stub(alloc::fmt::format, nofmt)]
fn attr_icmp() {
    use crate::attributes::turn::{Icmp, IcmpCode, IcmpType};
    assert!(Icmp::get_type().as_u16() == 0x8004);
    let msg = any_header();
    let t: u8 = kani::any();
    let c: u16 = kani::any();
    kani::assume(t <= 127 && c <= 511);
    let data: [u8; 4] = kani::any();
    let (it, ic) = match (IcmpType::new(t), IcmpCode::new(c)) {
        (Some(a), Some(b)) => (a, b),
        _ => {
            assert!(false);
            return;
        }
    };
    let a = Icmp::new(it, ic, data);
    if let Some(e) = enc(&a, &msg) {
        // RFC 8656 §18.13: Reserved (16) = 0 | ICMP Type (7) | ICMP Code (9) | Error Data (32)
        assert!(e.size == 8 && e.out[0] == 0 && e.out[1] == 0);
        let w = ((t as u16) << 9) | c;
        assert!(e.out[2] == (w >> 8) as u8 && e.out[3] == w as u8);
        assert!(e.out[4] == data[0] && e.out[5] == data[1] && e.out[6] == data[2] && e.out[7] == data[3]);
        if let Some(b) = dec::<Icmp>(&e, &msg) {
            assert!(u8::from(b.icmp_type()) == t && u16::from(b.icmp_code()) == c);
            assert!(b.error_data()[0] == data[0] && b.error_data()[3] == data[3]);
        }
        let mut e2 = Enc { out: e.out, size: 8 };
        e2.out[0] = kani::any();
        e2.out[1] = kani::any();
        if let Some(b) = dec::<Icmp>(&e2, &msg) {
            assert!(u8::from(b.icmp_type()) == t && u16::from(b.icmp_code()) == c, "C02: reserved bytes ignored");
        }
    }
}

#[kani::proof]
#[kani::unwind(10)]
#[kani::stub(alloc::fmt::format, nofmt)]
fn attr_change_request() {
    use crate::attributes::discovery::{ChangeRequest, ChangeRequestFlags};
    use enumflags2::BitFlags;
    assert!(ChangeRequest::get_type().as_u16() == 0x0003);
    let msg = any_header();
    let ip: bool = kani::any();
    let port: bool = kani::any();
    let mut f = BitFlags::<ChangeRequestFlags>::empty();
    if ip {
        f |= ChangeRequestFlags::ChangeIp;
    }
    if port {
        f |= ChangeRequestFlags::ChangePort;
    }
    let a = ChangeRequest::new(Some(f));
    if let Some(e) = enc(&a, &msg) {
        // RFC 5780 §7.2: 29 zero bits | A (change IP, 0x04) | B (change port, 0x02) | 0
        assert!(e.size == 4 && e.out[0] == 0 && e.out[1] == 0 && e.out[2] == 0);
        assert!(e.out[3] == (if ip { 4 } else { 0 }) | (if port { 2 } else { 0 }));
        if let Some(b) = dec::<ChangeRequest>(&e, &msg) {
            assert!(b.flags().contains(ChangeRequestFlags::ChangeIp) == ip);
            assert!(b.flags().contains(ChangeRequestFlags::ChangePort) == port);
        }
    }
}

// ERROR-CODE (RFC 8489 §14.8): 21 zero bits | class (3) | number (8) | reason
fn error_code_rt<const L: usize>() {
    use crate::attributes::stun::ErrorCode;
    assert!(ErrorCode::get_type().as_u16() == 0x0009);
    let msg = any_header();
    let code: u16 = kani::any();
    kani::assume(code >= 300 && code <= 699);
    let rb: [u8; L] = kani::any();
    let mut i = 0;
    while i < L {
        kani::assume(rb[i] >= 0x20 && rb[i] < 0x7f);
        i += 1;
    }
    let reason = unsafe { std::str::from_utf8_unchecked(&rb) };
    let ec = match crate::ErrorCode::new(code, reason) {
        Ok(e) => e,
        Err(_) => {
            assert!(false, "C19: every code 300..=699 is accepted");
            return;
        }
    };
    let a = ErrorCode::new(ec);
    if let Some(e) = enc(&a, &msg) {
        assert!(e.size == 4 + L);
        assert!(e.out[0] == 0 && e.out[1] == 0);
        assert!(e.out[2] == (code / 100) as u8 && e.out[3] == (code % 100) as u8, "C02: class/number split");
        if L > 0 {
            let j: usize = kani::any();
            kani::assume(j < L);
            assert!(e.out[4 + j] == rb[j]);
        }
        if let Some(b) = dec::<ErrorCode>(&e, &msg) {
            assert!(b.error_code().error_code() == code, "C01: every error code 300-699 survives the wire");
            assert!(b.error_code().reason().len() == L);
            if L > 0 {
                let j: usize = kani::any();
                kani::assume(j < L);
                assert!(b.error_code().reason().as_bytes()[j] == rb[j]);
            }
            std::mem::forget(b);
        }
        // reserved bits (first 21 bits) are ignored on receipt
        let mut e2 = Enc { out: e.out, size: e.size };
        e2.out[0] = kani::any();
        e2.out[1] = kani::any();
        let hi: u8 = kani::any();
        e2.out[2] = (e.out[2] & 0x07) | (hi & 0xf8);
        match ErrorCode::decode(AttributeDecoderContext::new(None, &msg, &e2.out[..e2.size])) {
            Ok((b, _)) => {
                assert!(b.error_code().error_code() == code, "C02: reserved bits ignored");
                std::mem::forget(b);
            }
            Err(x) => {
                std::mem::forget(x);
                assert!(false, "C02: reserved bits must not make decoding fail");
            }
        }
    }
    std::mem::forget(a);
}
macro_rules! error_code_inst {
    ($($name:ident = $l:expr, $u:expr;)*) => {$(
        #[kani::proof]
        #[kani::unwind($u)]
        #[kani::stub(alloc::fmt::format, nofmt)]
        fn $name() { error_code_rt::<$l>(); }
    )*};
}
error_code_inst! {
    attr_error_code_l0 = 0, 6;
    attr_error_code_l1 = 1, 6;
    attr_error_code_l3 = 3, 8;
    attr_error_code_l6 = 6, 11;
}

// ADDRESS-ERROR-CODE (RFC 8656 §18.12): family (8) | rsvd (13) | class (3) | number (8) | reason
#[kani::proof]
#[kani::unwind(12)]
#[kani::stub(alloc::fmt::format, nofmt)]
fn attr_address_error_code() {
    use crate::attributes::turn::AddressErrorCode;
    use crate::AddressFamily;
    assert!(AddressErrorCode::get_type().as_u16() == 0x8001);
    let msg = any_header();
    let code: u16 = kani::any();
    kani::assume(code >= 300 && code <= 699);
    let six: bool = kani::any();
    let fam = if six { AddressFamily::IPv6 } else { AddressFamily::IPv4 };
    let ec = match crate::ErrorCode::new(code, "ab") {
        Ok(e) => e,
        Err(_) => {
            assert!(false);
            return;
        }
    };
    let a = AddressErrorCode::new(fam, ec);
    if let Some(e) = enc(&a, &msg) {
        assert!(e.size == 6);
        assert!(e.out[0] == if six { 2 } else { 1 } && e.out[1] == 0);
        assert!(e.out[2] == (code / 100) as u8 && e.out[3] == (code % 100) as u8);
        assert!(e.out[4] == b'a' && e.out[5] == b'b');
        if let Some(b) = dec::<AddressErrorCode>(&e, &msg) {
            assert!(b.family() == fam && b.error_code().error_code() == code);
            assert!(b.error_code().reason().len() == 2);
            std::mem::forget(b);
        }
    }
    std::mem::forget(a);
}

// --------------------------------------------------------------------------------------------
// F. byte-vector kinds
// --------------------------------------------------------------------------------------------
fn data_rt<const L: usize>() {
    use crate::attributes::turn::Data;
    assert!(Data::get_type().as_u16() == 0x0013);
    let msg = any_header();
    let d: [u8; L] = kani::any();
    let a = Data::new(&d[..]);
    if let Some(e) = enc(&a, &msg) {
        assert!(e.size == L);
        if L > 0 {
            let j: usize = kani::any();
            kani::assume(j < L);
            assert!(e.out[j] == d[j]);
            if let Some(b) = dec::<Data>(&e, &msg) {
                assert!(b.as_bytes().len() == L && b.as_bytes()[j] == d[j]);
                std::mem::forget(b);
            }
        } else if let Some(b) = dec::<Data>(&e, &msg) {
            assert!(b.as_bytes().is_empty());
            std::mem::forget(b);
        }
    }
    std::mem::forget(a);
}
fn ticket_rt<const L: usize>() {
    use crate::attributes::mobility::MobilityTicket;
    assert!(MobilityTicket::get_type().as_u16() == 0x8030);
    let msg = any_header();
    let d: [u8; L] = kani::any();
    let a = MobilityTicket::new(&d[..]);
    if let Some(e) = enc(&a, &msg) {
        assert!(e.size == L);
        if L > 0 {
            let j: usize = kani::any();
            kani::assume(j < L);
            assert!(e.out[j] == d[j]);
            if let Some(b) = dec::<MobilityTicket>(&e, &msg) {
                assert!(b.value().len() == L && b.value()[j] == d[j]);
                std::mem::forget(b);
            }
        }
    }
    std::mem::forget(a);
}
macro_rules! bytes_inst {
    ($($name:ident = $f:ident($l:expr);)*) => {$(
        #[kani::proof]
        #[kani::unwind(12)]
        #[kani::stub(alloc::fmt::format, nofmt)]
        fn $name() { $f::<$l>(); }
    )*};
}
bytes_inst! {
    attr_data_l0 = data_rt(0);
    attr_data_l1 = data_rt(1);
    attr_data_l2 = data_rt(2);
    attr_data_l3 = data_rt(3);
    attr_data_l5 = data_rt(5);
    attr_mobility_ticket_l1 = ticket_rt(1);
    attr_mobility_ticket_l4 = ticket_rt(4);
}

// UNKNOWN-ATTRIBUTES (RFC 8489 §14.9): list of 16-bit types
fn unknown_attributes_rt<const N: usize>() {
    use crate::attributes::stun::UnknownAttributes;
    assert!(UnknownAttributes::get_type().as_u16() == 0x000a);
    let msg = any_header();
    let t0: u16 = kani::any();
    let t1: u16 = kani::any();
    kani::assume(t0 != t1);
    let mut a = UnknownAttributes::default();
    if N >= 1 {
        a.add(t0);
    }
    if N >= 2 {
        a.add(t1);
    }
    if let Some(e) = enc(&a, &msg) {
        assert!(e.size == 2 * N);
        if N >= 1 {
            assert!(e.out[0] == (t0 >> 8) as u8 && e.out[1] == t0 as u8);
        }
        if N >= 2 {
            assert!(e.out[2] == (t1 >> 8) as u8 && e.out[3] == t1 as u8);
        }
        if let Some(b) = dec::<UnknownAttributes>(&e, &msg) {
            assert!(b.attributes().len() == N);
            if N >= 1 {
                assert!(b.attributes()[0] == t0);
            }
            if N >= 2 {
                assert!(b.attributes()[1] == t1);
            }
            std::mem::forget(b);
        }
    }
    std::mem::forget(a);
}
#[kani::proof]
#[kani::unwind(4)]
#[kani::stub(alloc::fmt::format, nofmt)]
fn attr_unknown_attributes() {
    unknown_attributes_rt::<1>();
}
#[kani::proof]
#[kani::unwind(4)]
#[kani::stub(alloc::fmt::format, nofmt)]
fn attr_unknown_attributes_n2() {
    unknown_attributes_rt::<2>();
}

// USERHASH (RFC 8489 §14.4): 32 opaque bytes.  The only constructor hashes (SHA-256 is outside the
// solver's reach), so the value is obtained by decoding 32 arbitrary bytes and must re-encode to them.
#[kani::proof]
#[kani::unwind(40)]
#[kani::stub(alloc::fmt::format, nofmt)]
fn attr_user_hash() {
    use crate::attributes::stun::UserHash;
    assert!(UserHash::get_type().as_u16() == 0x001e);
    let msg = any_header();
    let raw: [u8; 32] = kani::any();
    let a = match UserHash::decode(AttributeDecoderContext::new(None, &msg, &raw)) {
        Ok((a, s)) => {
            assert!(s == 32);
            a
        }
        Err(e) => {
            std::mem::forget(e);
            assert!(false);
            return;
        }
    };
    let j: usize = kani::any();
    kani::assume(j < 32);
    assert!(a.hash().len() == 32 && a.hash()[j] == raw[j]);
    if let Some(e) = enc(&a, &msg) {
        assert!(e.size == 32 && e.out[j] == raw[j]);
    }
    // wrong length is rejected without panic
    let short: [u8; 31] = kani::any();
    assert!(UserHash::decode(AttributeDecoderContext::new(None, &msg, &short)).is_err());
    std::mem::forget(a);
}

// PASSWORD-ALGORITHM (RFC 8489 §14.12): algorithm (16) | parameters length (16) | parameters
fn any_alg_id() -> (AlgorithmId, u16) {
    let v: u16 = kani::any();
    (AlgorithmId::from(v), v)
}
fn password_algorithm_rt<const P: usize>() {
    use crate::attributes::stun::PasswordAlgorithm;
    assert!(PasswordAlgorithm::get_type().as_u16() == 0x001d);
    let msg = any_header();
    let (id, v) = any_alg_id();
    let params: [u8; P] = kani::any();
    let alg = if P == 0 { Algorithm::from(id) } else { Algorithm::new(id, &params[..]) };
    let a = PasswordAlgorithm::new(alg);
    if let Some(e) = enc(&a, &msg) {
        assert!(e.size == 4 + P);
        assert!(e.out[0] == (v >> 8) as u8 && e.out[1] == v as u8);
        assert!(e.out[2] == 0 && e.out[3] == P as u8);
        if P > 0 {
            let j: usize = kani::any();
            kani::assume(j < P);
            assert!(e.out[4 + j] == params[j]);
        }
        if let Some(b) = dec::<PasswordAlgorithm>(&e, &msg) {
            assert!(u16::from(b.algorithm()) == v);
            match b.parameters() {
                None => assert!(P == 0),
                Some(p) => {
                    assert!(P > 0 && p.len() == P);
                    let j: usize = kani::any();
                    kani::assume(j < P);
                    assert!(p[j] == params[j]);
                }
            }
            std::mem::forget(b);
        }
    }
    std::mem::forget(a);
}
// PASSWORD-ALGORITHMS (RFC 8489 §14.11): concatenation, each entry padded to a 32-bit boundary
// (the last one is padded by the attribute's own padding)
fn password_algorithms_rt<const P1: usize, const P2: usize, const N: usize>() {
    use crate::attributes::stun::{PasswordAlgorithm, PasswordAlgorithms};
    assert!(PasswordAlgorithms::get_type().as_u16() == 0x8002);
    let msg = any_header();
    let (id1, v1) = any_alg_id();
    let (id2, v2) = any_alg_id();
    let p1: [u8; P1] = kani::any();
    let p2: [u8; P2] = kani::any();
    let mut a = PasswordAlgorithms::default();
    if N >= 1 {
        a.add(PasswordAlgorithm::new(if P1 == 0 { Algorithm::from(id1) } else { Algorithm::new(id1, &p1[..]) }));
    }
    if N >= 2 {
        a.add(PasswordAlgorithm::new(if P2 == 0 { Algorithm::from(id2) } else { Algorithm::new(id2, &p2[..]) }));
    }
    let pad1 = (4 - (P1 & 3)) & 3;
    let want = if N == 0 { 0 } else if N == 1 { 4 + P1 } else { 4 + P1 + pad1 + 4 + P2 };
    if let Some(e) = enc(&a, &msg) {
        assert!(e.size == want, "C02: nested entries padded to 32 bits, last entry unpadded");
        if N >= 1 {
            assert!(e.out[0] == (v1 >> 8) as u8 && e.out[1] == v1 as u8 && e.out[2] == 0 && e.out[3] == P1 as u8);
            if P1 > 0 {
                let j: usize = kani::any();
                kani::assume(j < P1);
                assert!(e.out[4 + j] == p1[j]);
            }
        }
        if N >= 2 {
            let o = 4 + P1 + pad1;
            if pad1 > 0 {
                let j: usize = kani::any();
                kani::assume(j < pad1);
                assert!(e.out[4 + P1 + j] == 0, "C02: inner padding is zero");
            }
            assert!(e.out[o] == (v2 >> 8) as u8 && e.out[o + 1] == v2 as u8 && e.out[o + 2] == 0 && e.out[o + 3] == P2 as u8);
            if P2 > 0 {
                let j: usize = kani::any();
                kani::assume(j < P2);
                assert!(e.out[o + 4 + j] == p2[j]);
            }
        }
        if let Some(b) = dec::<PasswordAlgorithms>(&e, &msg) {
            assert!(b.password_algorithms().len() == N);
            if N >= 1 {
                let x = &b.password_algorithms()[0];
                assert!(u16::from(x.algorithm()) == v1);
                assert!(x.parameters().map_or(0, |p| p.len()) == P1);
            }
            if N >= 2 {
                let x = &b.password_algorithms()[1];
                assert!(u16::from(x.algorithm()) == v2);
                match x.parameters() {
                    None => assert!(P2 == 0),
                    Some(p) => {
                        assert!(p.len() == P2);
                        let j: usize = kani::any();
                        kani::assume(j < P2);
                        assert!(p[j] == p2[j]);
                    }
                }
            }
            std::mem::forget(b);
        }
        // inner padding bytes are ignored on receipt
        if N >= 2 && pad1 > 0 {
            let mut e2 = Enc { out: e.out, size: e.size };
            let j: usize = kani::any();
            kani::assume(j < pad1);
            e2.out[4 + P1 + j] = kani::any();
            match PasswordAlgorithms::decode(AttributeDecoderContext::new(None, &msg, &e2.out[..e2.size])) {
                Ok((b, _)) => {
                    assert!(b.password_algorithms().len() == 2);
                    assert!(u16::from(b.password_algorithms()[1].algorithm()) == v2, "C02: padding ignored");
                    std::mem::forget(b);
                }
                Err(x) => {
                    std::mem::forget(x);
                    assert!(false, "C02: padding must not make decoding fail");
                }
            }
        }
    }
    std::mem::forget(a);
}
macro_rules! pa_inst {
    ($($name:ident = $f:ident($($a:expr),*);)*) => {$(
        #[kani::proof]
        #[kani::unwind(6)]
        #[kani::stub(alloc::fmt::format, nofmt)]
        fn $name() { $f::<$($a),*>(); }
    )*};
}
pa_inst! {
    attr_password_algorithm_p0 = password_algorithm_rt(0);
    attr_password_algorithm_p1 = password_algorithm_rt(1);
    attr_password_algorithm_p3 = password_algorithm_rt(3);
    attr_password_algorithm_p4 = password_algorithm_rt(4);
    attr_password_algorithms_n0 = password_algorithms_rt(0, 0, 0);
    attr_password_algorithms_n1_p0 = password_algorithms_rt(0, 0, 1);
    attr_password_algorithms_n1_p3 = password_algorithms_rt(3, 0, 1);
    attr_password_algorithms_n2_p0_p0 = password_algorithms_rt(0, 0, 2);
    attr_password_algorithms_n2_p1_p2 = password_algorithms_rt(1, 2, 2);
    attr_password_algorithms_n2_p2_p0 = password_algorithms_rt(2, 0, 2);
    attr_password_algorithms_n2_p3_p3 = password_algorithms_rt(3, 3, 2);
}

// --------------------------------------------------------------------------------------------
// E. string kinds.  Contents: printable ASCII without SP, '"' and '\' (on this alphabet PRECIS
// OpaqueString is the identity and the quoted-string grammar accepts the text as qdtext; the
// stubs below implement exactly that and reject anything else, so the harness domain is the
// intersection of "documented domain" and "ASCII").
// --------------------------------------------------------------------------------------------
fn is_plain(b: u8) -> bool {
    b >= 0x21 && b < 0x7f && b != b'"' && b != b'\\'
}
pub fn precis_ascii(s: &str) -> Result<std::borrow::Cow<'_, str>, precis_core::Error> {
    let b = s.as_bytes();
    if b.is_empty() {
        return Err(precis_core::Error::Invalid);
    }
    let mut i = 0;
    while i < b.len() {
        if !(b[i] >= 0x20 && b[i] < 0x7f) {
            return Err(precis_core::Error::Invalid);
        }
        i += 1;
    }
    Ok(std::borrow::Cow::Borrowed(s))
}
pub fn qs_plain(_l: quoted_string_parser::QuotedStringParseLevel, s: &str) -> bool {
    let b = s.as_bytes();
    let mut i = 0;
    while i < b.len() {
        if !is_plain(b[i]) {
            return false;
        }
        i += 1;
    }
    true
}
fn plain_bytes<const L: usize>() -> [u8; L] {
    let b: [u8; L] = kani::any();
    let mut i = 0;
    while i < L {
        kani::assume(is_plain(b[i]));
        i += 1;
    }
    b
}

fn software_rt<const L: usize>() {
    use crate::attributes::stun::Software;
    assert!(Software::get_type().as_u16() == 0x8022);
    let msg = any_header();
    let b = plain_bytes::<L>();
    let s = unsafe { String::from_utf8_unchecked(b.to_vec()) };
    let a = match Software::new(s) {
        Ok(a) => a,
        Err(e) => {
            std::mem::forget(e);
            assert!(false);
            return;
        }
    };
    if let Some(e) = enc(&a, &msg) {
        assert!(e.size == L);
        if L > 0 {
            let j: usize = kani::any();
            kani::assume(j < L);
            assert!(e.out[j] == b[j]);
        }
        if let Some(d) = dec::<Software>(&e, &msg) {
            assert!(d.as_str().len() == L);
            if L > 0 {
                let j: usize = kani::any();
                kani::assume(j < L);
                assert!(d.as_str().as_bytes()[j] == b[j]);
            }
            std::mem::forget(d);
        }
    }
    std::mem::forget(a);
}
fn padding_rt<const L: usize>() {
    use crate::attributes::discovery::Padding;
    assert!(Padding::get_type().as_u16() == 0x0026);
    let msg = any_header();
    let b = plain_bytes::<L>();
    let s = unsafe { String::from_utf8_unchecked(b.to_vec()) };
    let a = match Padding::new(s) {
        Ok(a) => a,
        Err(e) => {
            std::mem::forget(e);
            assert!(false);
            return;
        }
    };
    if let Some(e) = enc(&a, &msg) {
        assert!(e.size == L);
        if let Some(d) = dec::<Padding>(&e, &msg) {
            assert!(d.as_str().len() == L);
            if L > 0 {
                let j: usize = kani::any();
                kani::assume(j < L);
                assert!(e.out[j] == b[j] && d.as_str().as_bytes()[j] == b[j]);
            }
            std::mem::forget(d);
        }
    }
    std::mem::forget(a);
}
fn user_name_rt<const L: usize>() {
    use crate::attributes::stun::UserName;
    assert!(UserName::get_type().as_u16() == 0x0006);
    let msg = any_header();
    let b = plain_bytes::<L>();
    let s = unsafe { std::str::from_utf8_unchecked(&b) };
    let a = match UserName::new(s) {
        Ok(a) => a,
        Err(e) => {
            std::mem::forget(e);
            assert!(false);
            return;
        }
    };
    if let Some(e) = enc(&a, &msg) {
        assert!(e.size == L);
        if let Some(d) = dec::<UserName>(&e, &msg) {
            assert!(d.as_str().len() == L);
            let j: usize = kani::any();
            kani::assume(j < L);
            assert!(e.out[j] == b[j] && d.as_str().as_bytes()[j] == b[j]);
            std::mem::forget(d);
        }
    }
    std::mem::forget(a);
}
fn realm_rt<const L: usize>() {
    use crate::attributes::stun::Realm;
    assert!(Realm::get_type().as_u16() == 0x0014);
    let msg = any_header();
    let b = plain_bytes::<L>();
    let s = unsafe { std::str::from_utf8_unchecked(&b) };
    let a = match Realm::new(s) {
        Ok(a) => a,
        Err(e) => {
            std::mem::forget(e);
            assert!(false);
            return;
        }
    };
    if let Some(e) = enc(&a, &msg) {
        assert!(e.size == L);
        if let Some(d) = dec::<Realm>(&e, &msg) {
            assert!(d.as_str().len() == L);
            let j: usize = kani::any();
            kani::assume(j < L);
            assert!(e.out[j] == b[j] && d.as_str().as_bytes()[j] == b[j]);
            std::mem::forget(d);
        }
    }
    std::mem::forget(a);
}
fn nonce_rt<const L: usize>() {
    use crate::attributes::stun::Nonce;
    assert!(Nonce::get_type().as_u16() == 0x0015);
    let msg = any_header();
    let b = plain_bytes::<L>();
    let s = unsafe { std::str::from_utf8_unchecked(&b) };
    let a = match Nonce::new(s) {
        Ok(a) => a,
        Err(e) => {
            std::mem::forget(e);
            assert!(false);
            return;
        }
    };
    if let Some(e) = enc(&a, &msg) {
        assert!(e.size == L);
        if let Some(d) = dec::<Nonce>(&e, &msg) {
            assert!(d.as_str().len() == L);
            if L > 0 {
                let j: usize = kani::any();
                kani::assume(j < L);
                assert!(e.out[j] == b[j] && d.as_str().as_bytes()[j] == b[j]);
            }
            std::mem::forget(d);
        }
    }
    std::mem::forget(a);
}
macro_rules! str_inst {
    ($($name:ident = $f:ident($l:expr), $u:expr;)*) => {$(
        #[kani::proof]
        #[kani::unwind($u)]
        #[kani::stub(alloc::fmt::format, nofmt)]
        #[kani::stub(crate::strings::opaque_string_prepapre, precis_ascii)]
        #[kani::stub(crate::strings::opaque_string_enforce, precis_ascii)]
        #[kani::stub(quoted_string_parser::QuotedStringParser::validate, qs_plain)]
        fn $name() { $f::<$l>(); }
    )*};
}
str_inst! {
    attr_software_l0 = software_rt(0), 6;
    attr_software_l1 = software_rt(1), 6;
    attr_software_l3 = software_rt(3), 8;
    attr_software_l6 = software_rt(6), 11;
    attr_padding_l2 = padding_rt(2), 7;
    attr_padding_l5 = padding_rt(5), 10;
    attr_user_name_l1 = user_name_rt(1), 6;
    attr_user_name_l2 = user_name_rt(2), 7;
    attr_user_name_l4 = user_name_rt(4), 9;
    attr_realm_l1 = realm_rt(1), 6;
    attr_realm_l3 = realm_rt(3), 8;
    attr_realm_l5 = realm_rt(5), 10;
    attr_nonce_l1 = nonce_rt(1), 6;
    attr_nonce_l2 = nonce_rt(2), 7;
    attr_nonce_l4 = nonce_rt(4), 9;
}

// the 508/509-byte limits as concrete-length witnesses (content 'a' * n: CBMC merely executes)
fn software_limit<const L: usize>() {
    use crate::attributes::stun::Software;
    let s = unsafe { String::from_utf8_unchecked(vec![b'a'; L]) };
    let r = Software::new(s);
    assert!(r.is_ok() == (L <= 509), "C01: SOFTWARE accepts up to 509 bytes");
    std::mem::forget(r);
}
#[kani::proof]
#[kani::unwind(4)]
#[kani::stub(alloc::fmt::format, nofmt)]
fn attr_software_limit_509() {
    software_limit::<509>();
}
#[kani::proof]
#[kani::unwind(4)]
#[kani::stub(alloc::fmt::format, nofmt)]
fn attr_software_limit_510() {
    software_limit::<510>();
}

// --------------------------------------------------------------------------------------------
// the registry: all registered type codes are pairwise distinct (the only property of the map
// the decoder relies on) and `registry_from_source` names each of them
// --------------------------------------------------------------------------------------------
#[kani::proof]
#[kani::unwind(42)]
fn attr_registry_codes_distinct() {
    use crate::verif_registry::{registered_type, registry_from_source, REGISTERED};
    let i: usize = kani::any();
    let j: usize = kani::any();
    kani::assume(i < REGISTERED && j < REGISTERED && i != j);
    assert!(registered_type(i) != registered_type(j));
    assert!(registry_from_source(crate::AttributeType::from(registered_type(i))).is_some());
    assert!(REGISTERED == 38, "all 38 kinds of the five feature sets are registered");
}

// =============================================================================================
// C14 (attribute level) / C03: every attribute encoder respects the slice it is given — for every
// buffer length 0..=needed+2 (symbolic) it returns Err when the value does not fit and never
// panics; on Ok the size is the needed size.
// =============================================================================================
fn enc_any_len<A: EncodeAttributeValue>(a: &A, msg: &[u8; 20], needed: usize) {
    let fill: u8 = kani::any();
    let mut out = [fill; CAP];
    let blen: usize = kani::any();
    kani::assume(blen <= needed + 2 && blen <= CAP);
    let r = a.encode(AttributeEncoderContext::new(None, msg, &mut out[..blen]));
    match &r {
        Ok(n) => {
            assert!(*n == needed && blen >= needed, "C14: Ok only when the value fits, with the exact size");
            let j: usize = kani::any();
            kani::assume(j < CAP);
            if j >= needed {
                assert!(out[j] == fill, "C14: nothing written beyond the returned size");
            }
        }
        Err(_) => assert!(blen < needed, "C14: a slice that is long enough is accepted"),
    }
    kani::cover!(r.is_err());
    kani::cover!(r.is_ok());
    std::mem::forget(r);
}

#[kani::proof]
#[kani::unwind(12)]
#[kani::stub(alloc::fmt::format, nofmt)]
fn c14_attr_error_code_any_len() {
    let msg = any_header();
    let code: u16 = kani::any();
    kani::assume(code >= 300 && code <= 699);
    let ec = match crate::ErrorCode::new(code, "abc") {
        Ok(e) => e,
        Err(_) => return,
    };
    let a = crate::attributes::stun::ErrorCode::new(ec);
    enc_any_len(&a, &msg, 7);
    std::mem::forget(a);
}

#[kani::proof]
#[kani::unwind(12)]
#[kani::stub(alloc::fmt::format, nofmt)]
fn c14_attr_address_error_code_any_len() {
    let msg = any_header();
    let ec = match crate::ErrorCode::new(437, "ab") {
        Ok(e) => e,
        Err(_) => return,
    };
    let a = crate::attributes::turn::AddressErrorCode::new(crate::AddressFamily::IPv6, ec);
    enc_any_len(&a, &msg, 6);
    std::mem::forget(a);
}

#[kani::proof]
#[kani::unwind(12)]
#[kani::stub(alloc::fmt::format, nofmt)]
fn c14_attr_password_algorithms_any_len() {
    use crate::attributes::stun::{PasswordAlgorithm, PasswordAlgorithms};
    let msg = any_header();
    let p: [u8; 1] = kani::any();
    let mut a = PasswordAlgorithms::default();
    a.add(PasswordAlgorithm::new(Algorithm::new(AlgorithmId::MD5, &p[..])));
    a.add(PasswordAlgorithm::new(Algorithm::from(AlgorithmId::SHA256)));
    enc_any_len(&a, &msg, 4 + 1 + 3 + 4);
    std::mem::forget(a);
}

#[kani::proof]
#[kani::unwind(22)]
#[kani::stub(alloc::fmt::format, nofmt)]
fn c14_attr_fixed_kinds_any_len() {
    let msg = any_header();
    let (sa4, _, _) = any_v4();
    let (sa6, _, _) = any_v6();
    let k: u8 = kani::any();
    kani::assume(k < 10);
    match k {
        0 => enc_any_len(&crate::attributes::stun::XorMappedAddress::from(sa4), &msg, 8),
        1 => enc_any_len(&crate::attributes::stun::XorMappedAddress::from(sa6), &msg, 20),
        2 => enc_any_len(&crate::attributes::stun::MappedAddress::from(sa6), &msg, 20),
        3 => enc_any_len(&crate::attributes::turn::ChannelNumber::new(kani::any()), &msg, 4),
        4 => enc_any_len(&crate::attributes::turn::EvenPort::new(kani::any()), &msg, 1),
        5 => enc_any_len(&crate::attributes::turn::ReservationToken::from(kani::any::<[u8; 8]>()), &msg, 8),
        6 => enc_any_len(&crate::attributes::ice::IceControlled::new(kani::any()), &msg, 8),
        7 => enc_any_len(&crate::attributes::turn::RequestedAddressFamily::new(crate::AddressFamily::IPv4), &msg, 4),
        8 => enc_any_len(&crate::attributes::stun::Fingerprint::default(), &msg, 4),
        _ => enc_any_len(&crate::attributes::discovery::ResponsePort::new(kani::any()), &msg, 2),
    }
}

#[kani::proof]
#[kani::unwind(12)]
#[kani::stub(alloc::fmt::format, nofmt)]
fn c14_attr_bytes_kinds_any_len() {
    let msg = any_header();
    let d: [u8; 3] = kani::any();
    let k: u8 = kani::any();
    kani::assume(k < 3);
    match k {
        0 => {
            let a = crate::attributes::turn::Data::new(&d[..]);
            enc_any_len(&a, &msg, 3);
            std::mem::forget(a);
        }
        1 => {
            let a = crate::attributes::mobility::MobilityTicket::new(&d[..]);
            enc_any_len(&a, &msg, 3);
            std::mem::forget(a);
        }
        _ => {
            let a = match crate::attributes::stun::Software::new("abc") {
                Ok(a) => a,
                Err(_) => return,
            };
            enc_any_len(&a, &msg, 3);
            std::mem::forget(a);
        }
    }
}

// =============================================================================================
// C04: validation accepts exactly the stored MAC == computed MAC (all 20 / 32 bytes).
// The HMAC primitive is the recording stub's sibling: it returns the MAC chosen by the harness.
// =============================================================================================
static mut WANT_MI: [u8; 20] = [0; 20];
static mut WANT_SHA: [u8; 32] = [0; 32];
fn mac_mi(_k: &[u8], _m: &[u8]) -> Vec<u8> {
    unsafe { WANT_MI.to_vec() }
}
fn mac_sha(_k: &[u8], _m: &[u8]) -> Vec<u8> {
    unsafe { WANT_SHA.to_vec() }
}
fn key_ab() -> Option<crate::HMACKey> {
    crate::HMACKey::new_short_term("ab").ok()
}

#[kani::proof]
#[kani::unwind(36)]
#[kani::stub(alloc::fmt::format, nofmt)]
#[kani::stub(crate::strings::opaque_string_enforce, precis_ascii)]
#[kani::stub(<crate::attributes::stun::MessageIntegrity as crate::attributes::integrity_attr::HmacSha>::hmac_sha, mac_mi)]
fn c04_validate_mi_compares_all_bytes() {
    use crate::attributes::stun::MessageIntegrity;
    let key = match key_ab() { Some(k) => k, None => return };
    let stored: [u8; 20] = kani::any();
    let want: [u8; 20] = kani::any();
    unsafe { WANT_MI = want; }
    let a = MessageIntegrity::from(stored);
    let ok = a.validate(&[1, 2, 3], &key);
    let mut same = true;
    let mut i = 0;
    while i < 20 {
        if stored[i] != want[i] {
            same = false;
        }
        i += 1;
    }
    assert!(ok == same, "C04: accepted exactly when every byte of the MAC matches");
    // an attribute built for encoding never validates
    assert!(!MessageIntegrity::new(key.clone()).validate(&[1, 2, 3], &key));
    kani::cover!(ok);
    std::mem::forget(key);
}

#[kani::proof]
#[kani::unwind(36)]
#[kani::stub(alloc::fmt::format, nofmt)]
#[kani::stub(crate::strings::opaque_string_enforce, precis_ascii)]
#[kani::stub(<crate::attributes::stun::MessageIntegritySha256 as crate::attributes::integrity_attr::HmacSha>::hmac_sha, mac_sha)]
fn c04_validate_sha256_compares_all_bytes() {
    use crate::attributes::stun::MessageIntegritySha256;
    let key = match key_ab() { Some(k) => k, None => return };
    let stored: [u8; 32] = kani::any();
    let want: [u8; 32] = kani::any();
    unsafe { WANT_SHA = want; }
    let a = MessageIntegritySha256::from(stored);
    let ok = a.validate(&[1, 2, 3], &key);
    let mut same = true;
    let mut i = 0;
    while i < 32 {
        if stored[i] != want[i] {
            same = false;
        }
        i += 1;
    }
    assert!(ok == same, "C04: accepted exactly when every byte of the MAC matches");
    kani::cover!(ok);
    std::mem::forget(key);
}

// FINGERPRINT validation: accepted exactly when stored ^ 0x5354554e == CRC-32 of the input
#[kani::proof]
#[kani::unwind(260)]
#[kani::stub(alloc::fmt::format, nofmt)]
fn c10_fingerprint_validate() {
    use crate::attributes::stun::Fingerprint;
    let raw: [u8; 4] = kani::any();
    let input: [u8; 4] = kani::any();
    let a = Fingerprint::from(raw);
    let crc = crc::Crc::<u32>::new(&crc::CRC_32_ISO_HDLC).checksum(&input);
    let stored = ((raw[0] as u32) << 24) | ((raw[1] as u32) << 16) | ((raw[2] as u32) << 8) | raw[3] as u32;
    assert!(a.validate(&input) == ((stored ^ 0x5354_554e) == crc), "C10: wire value = CRC XOR 0x5354554e");
    assert!(!Fingerprint::default().validate(&input));
}

// three-entry PASSWORD-ALGORITHMS lists: the inner padding of every entry but the last
fn password_algorithms_rt3<const P1: usize, const P2: usize, const P3: usize>() {
    use crate::attributes::stun::{PasswordAlgorithm, PasswordAlgorithms};
    let msg = any_header();
    let ids: [u16; 3] = kani::any();
    let p1: [u8; P1] = kani::any();
    let p2: [u8; P2] = kani::any();
    let p3: [u8; P3] = kani::any();
    let mk = |id: u16, p: &[u8]| PasswordAlgorithm::new(if p.is_empty() { Algorithm::from(AlgorithmId::from(id)) } else { Algorithm::new(AlgorithmId::from(id), p) });
    let mut a = PasswordAlgorithms::default();
    a.add(mk(ids[0], &p1));
    a.add(mk(ids[1], &p2));
    a.add(mk(ids[2], &p3));
    let pad = |n: usize| (4 - (n & 3)) & 3;
    let o2 = 4 + P1 + pad(P1);
    let o3 = o2 + 4 + P2 + pad(P2);
    let want = o3 + 4 + P3;
    if let Some(e) = enc(&a, &msg) {
        assert!(e.size == want, "C02: every entry but the last is padded to 32 bits");
        assert!(e.out[o2] == (ids[1] >> 8) as u8 && e.out[o2 + 1] == ids[1] as u8 && e.out[o2 + 3] == P2 as u8);
        assert!(e.out[o3] == (ids[2] >> 8) as u8 && e.out[o3 + 1] == ids[2] as u8 && e.out[o3 + 3] == P3 as u8);
        if let Some(b) = dec::<PasswordAlgorithms>(&e, &msg) {
            assert!(b.password_algorithms().len() == 3, "C01: same list after the round trip");
            let j: usize = kani::any();
            kani::assume(j < 3);
            assert!(u16::from(b.password_algorithms()[j].algorithm()) == ids[j]);
            let pl = [P1, P2, P3];
            assert!(b.password_algorithms()[j].parameters().map_or(0, |p| p.len()) == pl[j]);
            std::mem::forget(b);
        }
    }
    std::mem::forget(a);
}
pa_inst! {
    attr_password_algorithms_n3_p1_p2_p0 = password_algorithms_rt3(1, 2, 0);
    attr_password_algorithms_n3_p0_p0_p0 = password_algorithms_rt3(0, 0, 0);
    attr_password_algorithms_n3_p3_p1_p2 = password_algorithms_rt3(3, 1, 2);
}

// --------------------------------------------------------------------------------------------
// PASSWORD-ALGORITHMS list walker (C01 / C03): the real PasswordAlgorithms::decode loop and the real
// PasswordAlgorithm::decode run on an arbitrary value of up to N bytes; the two heap-building
// steps (Algorithm::new -> Arc<Vec<u8>>, PasswordAlgorithms::add -> Arc<Vec<..>>) are replaced by
// recording stubs, so that the offsets, lengths and bytes the decoder hands over are observed
// without the nested Arc/Vec storage (which no whole-list query fits, DESIGN 0.4).
// Reference: the layout the encoder produces (RFC 8489 14.11): entry k starts on a 32-bit boundary,
// is 4 + plen bytes long, the last entry ends the value.
// --------------------------------------------------------------------------------------------
#[derive(Clone, Copy)]
struct PaRec {
    id: u16,
    plen: usize,
    some: bool,
    at_j: u8,
}
const PA_MAX: usize = 8;
static mut PA_REC: [PaRec; PA_MAX] = [PaRec { id: 0, plen: 0, some: false, at_j: 0 }; PA_MAX];
static mut PA_N: usize = 0;
static mut PA_J: usize = 0;
static mut PA_LAST: PaRec = PaRec { id: 0, plen: 0, some: false, at_j: 0 };
fn alg_new_rec<'a, T: Into<Option<&'a [u8]>>>(algorithm: AlgorithmId, parameters: T) -> Algorithm {
    let p: Option<&'a [u8]> = parameters.into();
    let mut r = PaRec { id: u16::from(algorithm), plen: 0, some: false, at_j: 0 };
    if let Some(s) = p {
        r.some = true;
        r.plen = s.len();
        let j = unsafe { PA_J };
        if j < s.len() {
            r.at_j = s[j];
        }
    }
    unsafe { PA_LAST = r };
    Algorithm::from(algorithm)
}
fn pa_add_rec(_this: &mut crate::attributes::stun::PasswordAlgorithms, a: crate::attributes::stun::PasswordAlgorithm) {
    unsafe {
        let r = PA_LAST;
        assert!(u16::from(a.algorithm()) == r.id);
        if PA_N < PA_MAX {
            PA_REC[PA_N] = r;
        }
        PA_N += 1;
    }
    std::mem::forget(a);
}
fn pa_walk<const N: usize>() {
    use crate::attributes::stun::PasswordAlgorithms;
    let buf: [u8; N] = kani::any();
    let l: usize = kani::any();
    kani::assume(l <= N);
    let msg = any_header();
    let j: usize = kani::any();
    unsafe {
        PA_N = 0;
        PA_J = j;
    }
    let r = PasswordAlgorithms::decode(AttributeDecoderContext::new(None, &msg, &buf[..l]));
    // reference walk over the encoder's layout
    let mut off = 0usize;
    let mut k = 0usize;
    let mut well_formed = true;
    let mut same = true;
    while off < l {
        if off + 4 > l {
            well_formed = false;
            break;
        }
        let id = ((buf[off] as u16) << 8) | buf[off + 1] as u16;
        let pl = (((buf[off + 2] as u16) << 8) | buf[off + 3] as u16) as usize;
        if off + 4 + pl > l {
            well_formed = false;
            break;
        }
        let rec = unsafe { PA_REC[k] };
        if crate::verif_cfg::NATIVE_REPLAY {
            // native replay of a counterexample (no stubs): the entries are read from the real list
            if let Ok((a, _)) = &r {
                match a.password_algorithms().get(k) {
                    Some(x) => {
                        let p = x.parameters();
                        if u16::from(x.algorithm()) != id || p.map_or(0, |p| p.len()) != pl || p.is_some() != (pl > 0) || (j < pl && p.map_or(0, |p| p[j]) != buf[off + 4 + j]) {
                            same = false;
                        }
                    }
                    None => same = false,
                }
            }
        } else if k >= unsafe { PA_N } || rec.id != id || rec.plen != pl || rec.some != (pl > 0) || (j < pl && rec.at_j != buf[off + 4 + j]) {
            same = false;
        }
        k += 1;
        let end = off + 4 + pl;
        if end == l {
            off = end;
        } else {
            off = (end + 3) & !3usize;
            if off + 4 > l {
                well_formed = false;
                break;
            }
        }
    }
    match r {
        Ok((a, size)) => {
            assert!(size <= l, "C03: never consumes more than the value");
            // a value that is not in the encoder's layout (trailing padding, truncated entry) may be rejected
            // or tolerated: no property speaks about it, only panics are excluded (C03)
            if well_formed {
                assert!(size == l, "C01: the list decoder consumes the whole value");
                let n = if crate::verif_cfg::NATIVE_REPLAY { a.password_algorithms().len() } else { unsafe { PA_N } };
                assert!(n == k, "C01: as many entries as the value holds");
                assert!(same, "C01: every entry read at its 32-bit aligned offset with its own length and bytes");
            }
            kani::cover!(k == 3, "three entries");
            kani::cover!(k >= 2 && l % 4 != 0, "unaligned last entry");
            std::mem::forget(a);
        }
        Err(e) => {
            assert!(!well_formed, "C01: a well-formed list (the encoder's layout) decodes");
            kani::cover!(k >= 2, "error after two entries");
            std::mem::forget(e);
        }
    }
}
macro_rules! pa_walk_inst {
    ($($name:ident = $n:expr, $u:expr;)*) => {$(
        #[kani::proof]
        #[kani::unwind($u)]
        #[kani::stub(alloc::fmt::format, nofmt)]
        #[kani::stub(crate::algorithm::Algorithm::new, alg_new_rec)]
        #[kani::stub(crate::attributes::stun::password_algorithms::PasswordAlgorithms::add, pa_add_rec)]
        fn $name() { pa_walk::<$n>(); }
    )*};
}
pa_walk_inst! {
    c01_pa_walk_n12 = 12, 5;
    c01_pa_walk_n16 = 16, 6;
    c01_pa_walk_n24 = 24, 8;
}

// Encode side of the list: the real PasswordAlgorithms::encode / PasswordAlgorithm::encode loop over a
// list of N entries whose parameters are supplied by a stub of Algorithm::parameters (virtual
// parameters: per entry a symbolic length 0..=4 and symbolic bytes), so that the list itself holds no
// nested Arc<Vec<u8>>.  The written layout is compared with the RFC 8489 14.11 layout the walker above
// takes as its reference.
static mut VP_BASE: usize = 0;
static mut VP_LEN: [usize; 4] = [0; 4];
static mut VP_BYTES: [[u8; 4]; 4] = [[0; 4]; 4];
fn alg_params_virtual(this: &Algorithm) -> Option<&[u8]> {
    unsafe {
        let idx = (this as *const Algorithm as usize - VP_BASE) / std::mem::size_of::<crate::attributes::stun::PasswordAlgorithm>();
        assert!(idx < 4);
        let l = VP_LEN[idx];
        if l == 0 {
            None
        } else {
            Some(&VP_BYTES[idx][..l])
        }
    }
}
fn pa_layout<const N: usize>() {
    use crate::attributes::stun::{PasswordAlgorithm, PasswordAlgorithms};
    let msg = any_header();
    let ids: [u16; 4] = kani::any();
    let lens: [usize; 4] = kani::any();
    let bytes: [[u8; 4]; 4] = kani::any();
    kani::assume(lens[0] <= 4 && lens[1] <= 4 && lens[2] <= 4 && lens[3] <= 4);
    let mut v: Vec<PasswordAlgorithm> = Vec::with_capacity(N);
    let mut i = 0;
    while i < N {
        v.push(PasswordAlgorithm::new(Algorithm::from(AlgorithmId::from(ids[i]))));
        i += 1;
    }
    unsafe {
        VP_BASE = v.as_ptr() as usize;
        VP_LEN = lens;
        VP_BYTES = bytes;
    }
    let a = PasswordAlgorithms::from(v);
    let pad = |n: usize| (4 - (n & 3)) & 3;
    if let Some(e) = enc(&a, &msg) {
        let mut off = 0usize;
        let mut k = 0usize;
        let j: usize = kani::any();
        while k < N {
            assert!(e.out[off] == (ids[k] >> 8) as u8 && e.out[off + 1] == ids[k] as u8, "C02: algorithm number, big endian");
            assert!(e.out[off + 2] == 0 && e.out[off + 3] == lens[k] as u8, "C02: parameter length, big endian");
            if j < lens[k] {
                assert!(e.out[off + 4 + j] == bytes[k][j], "C02: parameter bytes");
            }
            let end = off + 4 + lens[k];
            if k + 1 < N {
                if j < pad(lens[k]) {
                    assert!(e.out[end + j] == 0, "C02: inner padding is zero");
                }
                off = end + pad(lens[k]);
            } else {
                off = end;
            }
            k += 1;
        }
        assert!(e.size == off, "C02: every entry but the last is padded to 32 bits; the last ends the value");
        kani::cover!(N >= 3 && lens[0] == 1 && lens[1] == 2, "padded inner entries");
    }
    std::mem::forget(a);
}
macro_rules! pa_layout_inst {
    ($($name:ident = $n:expr;)*) => {$(
        #[kani::proof]
        #[kani::unwind(6)]
        #[kani::stub(alloc::fmt::format, nofmt)]
        #[kani::stub(crate::algorithm::Algorithm::parameters, alg_params_virtual)]
        fn $name() { pa_layout::<$n>(); }
    )*};
}
pa_layout_inst! {
    c01_pa_layout_n1 = 1;
    c01_pa_layout_n2 = 2;
    c01_pa_layout_n3 = 3;
    c01_pa_layout_n4 = 4;
}

// --------------------------------------------------------------------------------------------
// C04, long-term key derivation: what HMACKey::new_long_term hands to the hash.  The real function runs
// with the real `format!` (no fmt stub in this query); the hash (HMACKey::get_key: MD5 / SHA-256) is a
// recording stub; PRECIS is modelled so that enforcement and preparation are distinguishable:
// preparation validates only, enforcement also rewrites one designated character ('~' -> '-', standing
// for any code point OpaqueString enforcement maps or normalises).  Decided: the hashed text is
// user ":" Enforce(realm) ":" Enforce(password).
// --------------------------------------------------------------------------------------------
static mut KEY_TEXT: [u8; 8] = [0; 8];
static mut KEY_LEN: usize = 0;
static mut KEY_CALLS: usize = 0;
fn get_key_rec(key: &str, _params: &Algorithm) -> Result<Vec<u8>, crate::StunError> {
    let b = key.as_bytes();
    unsafe {
        KEY_LEN = b.len();
        KEY_CALLS += 1;
        let mut i = 0;
        while i < 8 && i < b.len() {
            KEY_TEXT[i] = b[i];
            i += 1;
        }
    }
    Ok(Vec::new())
}
fn precis_prepare_model(s: &str) -> Result<std::borrow::Cow<'_, str>, precis_core::Error> {
    precis_ascii(s)
}
fn precis_enforce_model(s: &str) -> Result<std::borrow::Cow<'_, str>, precis_core::Error> {
    let b = s.as_bytes();
    if b.len() != 1 {
        // the harness only supplies one-character texts
        return Err(precis_core::Error::Invalid);
    }
    if !(b[0] >= 0x20 && b[0] < 0x7f) {
        return Err(precis_core::Error::Invalid);
    }
    if b[0] == b'~' {
        Ok(std::borrow::Cow::Owned(String::from("-")))
    } else {
        Ok(std::borrow::Cow::Borrowed(s))
    }
}
#[kani::proof]
#[kani::unwind(4)]
#[kani::stub(crate::strings::opaque_string_prepapre, precis_prepare_model)]
#[kani::stub(crate::strings::opaque_string_enforce, precis_enforce_model)]
#[kani::stub(crate::types::HMACKey::get_key, get_key_rec)]
fn c04_long_term_key_text() {
    let u: u8 = kani::any();
    let r: u8 = kani::any();
    let p: u8 = kani::any();
    kani::assume(u >= 0x21 && u < 0x7f && r >= 0x21 && r < 0x7f && p >= 0x21 && p < 0x7f);
    let ub = [u];
    let rb = [r];
    let pb = [p];
    let us = unsafe { std::str::from_utf8_unchecked(&ub) };
    let rs = unsafe { std::str::from_utf8_unchecked(&rb) };
    let ps = unsafe { std::str::from_utf8_unchecked(&pb) };
    let alg = Algorithm::from(AlgorithmId::MD5);
    unsafe {
        KEY_CALLS = 0;
    }
    let k = crate::types::HMACKey::new_long_term(us, rs, ps, &alg);
    assert!(k.is_ok(), "C04: a key is derived for every printable one-character user / realm / password");
    let enf = |c: u8| if c == b'~' { b'-' } else { c };
    unsafe {
        assert!(KEY_CALLS == 1);
        assert!(KEY_LEN == 5, "C04: hashed text is user:realm:password");
        assert!(KEY_TEXT[0] == u && KEY_TEXT[1] == b':' && KEY_TEXT[3] == b':', "C04: hashed text is user:realm:password");
        assert!(KEY_TEXT[2] == enf(r), "C04: the realm is OpaqueString-enforced before hashing");
        assert!(KEY_TEXT[4] == enf(p), "C04: the password is OpaqueString-enforced before hashing");
    }
    kani::cover!(r == b'~');
    std::mem::forget(k);
}
