// White-box unit harnesses of context.rs that CALL a private function by its current signature.  They live in
// their own module: when a refactoring changes such a signature the driver drops this module (its queries
// become inconclusive) and still runs every other query of the build.
#![allow(unused_imports, dead_code)]
use super::*;
use crate::support_common::*;
use super::verif_context::{fp_validate_any, input_text_empty, VAL_ANS, VAL_CALLS};

// ---------------------------------------------------------------------------------------------
// C18 (unit level): context::validate_attribute, the only place where `with_validation` acts.  It
// takes shared references only; decided here for a verifiable (FINGERPRINT) and a non-verifiable
// (PRIORITY) attribute under every option set and both verdicts of the (stubbed, counted) CRC check:
// it can only turn Ok into Err, does so exactly when validation is on, the attribute is verifiable
// and the primitive says no, and calls the primitive only then.
// ---------------------------------------------------------------------------------------------
fn c18_validate_unit<const VERIFIABLE: bool>() {
    let raw: [u8; 4] = kani::any();
    let attr: StunAttribute = if VERIFIABLE {
        crate::attributes::stun::Fingerprint::from(raw).into()
    } else {
        crate::attributes::ice::Priority::from(u32::from_be_bytes(raw)).into()
    };
    let buf: [u8; 28] = kani::any();
    let has_ctx: bool = kani::any();
    let val: bool = kani::any();
    let ni: bool = kani::any();
    let ud: bool = kani::any();
    let ctx: Option<DecoderContext> = if has_ctx {
        let mut b = DecoderContextBuilder::default();
        if val {
            b = b.with_validation();
        }
        if ni {
            b = b.not_ignore();
        }
        if ud {
            b = b.with_unknown_data();
        }
        Some(b.build())
    } else {
        None
    };
    let ans: [bool; 2] = kani::any();
    unsafe {
        VAL_CALLS = 0;
        VAL_ANS = ans;
    }
    let r = validate_attribute(&attr, &ctx, &buf);
    let calls = unsafe { VAL_CALLS };
    let active = has_ctx && val && VERIFIABLE;
    if active {
        assert!(calls == 1, "C18: one verification per validated attribute");
        assert!(r.is_ok() == ans[0], "C18: validation fails exactly when the attribute does not verify");
    } else {
        assert!(calls == 0, "C18: nothing is verified without with_validation / for a non-verifiable attribute");
        assert!(r.is_ok(), "C18: validation off => never an error from validation");
    }
    kani::cover!(active && r.is_err());
    kani::cover!(r.is_ok());
    std::mem::forget(r);
    std::mem::forget(attr);
    std::mem::forget(ctx);
}
macro_rules! c18vu_inst {
    ($($name:ident = $v:expr;)*) => {$(
        #[kani::proof]
        #[kani::unwind(6)]
        #[kani::stub(alloc::fmt::format, nofmt)]
        #[kani::stub(crate::attributes::stun::fingerprint::Fingerprint::validate, fp_validate_any)]
        #[kani::stub(crate::raw::get_input_text, input_text_empty)]
        fn $name() { c18_validate_unit::<$v>(); }
    )*};
}
c18vu_inst! {
    c18_validate_unit_fingerprint = true;
    c18_validate_unit_priority = false;
}

