// C19/C03: nonce-cookie accessors on server-chosen text.  Child module of attributes/stun/nonce.rs.
//
// The text is assembled structurally (DESIGN C03): "obMatJos2" + K printable ASCII bytes + one
// multi-byte UTF-8 character of W bytes (every code point of that width) + "xyz".  It is handed to
// the accessors as a Nonce built without running the pest grammar (the grammar is over-approximated:
// any such string may be a nonce).  A counterexample is replayed natively through the real
// `Nonce::new` (see /verif/lib/rv/native.py) before it is reported.
#![allow(dead_code, unused_imports)]
use super::*;
use crate::support_common::*;

fn nonce_from_bytes(v: Vec<u8>) -> Nonce {
    let s = unsafe { String::from_utf8_unchecked(v) };
    Nonce(crate::strings::verif_strings::quoted_unchecked(s))
}

fn ascii_qd() -> u8 {
    let c: u8 = kani::any();
    kani::assume(c >= 0x21 && c < 0x7f && c != b'"' && c != b'\\');
    c
}

fn c19_nonce_cookie_2<const K: usize, const N: usize>() {
    // N = 9 + K + 2 + 3
    let mut b = [0u8; N];
    b[..9].copy_from_slice(b"obMatJos2");
    let mut i = 0;
    while i < K {
        b[9 + i] = ascii_qd();
        i += 1;
    }
    let b0: u8 = kani::any();
    let b1: u8 = kani::any();
    kani::assume(b0 >= 0xc2 && b0 <= 0xdf && b1 >= 0x80 && b1 <= 0xbf);
    b[9 + K] = b0;
    b[9 + K + 1] = b1;
    b[9 + K + 2] = b'x';
    b[9 + K + 3] = b'y';
    b[9 + K + 4] = b'z';
    let nonce = nonce_from_bytes(b.to_vec());
    let is = nonce.is_nonce_cookie();
    let f = nonce.security_features();
    assert!(is || f.is_err());
    kani::cover!(is);
    std::mem::forget(f);
    std::mem::forget(nonce);
}

fn c19_nonce_cookie_3<const K: usize, const N: usize>() {
    // N = 9 + K + 3 + 3 ; 3-byte characters U+0800..U+FFFF without surrogates
    let mut b = [0u8; N];
    b[..9].copy_from_slice(b"obMatJos2");
    let mut i = 0;
    while i < K {
        b[9 + i] = ascii_qd();
        i += 1;
    }
    let b0: u8 = kani::any();
    let b1: u8 = kani::any();
    let b2: u8 = kani::any();
    kani::assume(b0 >= 0xe0 && b0 <= 0xef && b1 >= 0x80 && b1 <= 0xbf && b2 >= 0x80 && b2 <= 0xbf);
    kani::assume(!(b0 == 0xe0 && b1 < 0xa0));
    kani::assume(!(b0 == 0xed && b1 >= 0xa0));
    b[9 + K] = b0;
    b[9 + K + 1] = b1;
    b[9 + K + 2] = b2;
    b[9 + K + 3] = b'x';
    b[9 + K + 4] = b'y';
    b[9 + K + 5] = b'z';
    let nonce = nonce_from_bytes(b.to_vec());
    let is = nonce.is_nonce_cookie();
    let f = nonce.security_features();
    assert!(is || f.is_err());
    kani::cover!(is);
    std::mem::forget(f);
    std::mem::forget(nonce);
}

// all-ASCII flags: the four flag characters are arbitrary printable ASCII, incl. non-base64
fn c19_nonce_cookie_ascii<const K: usize, const N: usize>() {
    let mut b = [0u8; N];
    b[..9].copy_from_slice(b"obMatJos2");
    let mut i = 0;
    while i < K {
        b[9 + i] = ascii_qd();
        i += 1;
    }
    let nonce = nonce_from_bytes(b.to_vec());
    let is = nonce.is_nonce_cookie();
    assert!(is == (K >= 4));
    let f = nonce.security_features();
    assert!(is || f.is_err());
    kani::cover!(f.is_ok());
    kani::cover!(is && f.is_err());
    std::mem::forget(f);
    std::mem::forget(nonce);
}

macro_rules! inst {
    ($($name:ident = $f:ident($k:expr, $n:expr);)*) => {$(
        #[kani::proof]
        #[kani::unwind(11)]
        #[kani::stub(alloc::fmt::format, nofmt)]
        fn $name() { $f::<$k, $n>(); }
    )*};
}
inst! {
    c19_nonce_cookie_k0_w2 = c19_nonce_cookie_2(0, 14);
    c19_nonce_cookie_k1_w2 = c19_nonce_cookie_2(1, 15);
    c19_nonce_cookie_k2_w2 = c19_nonce_cookie_2(2, 16);
    c19_nonce_cookie_k3_w2 = c19_nonce_cookie_2(3, 17);
    c19_nonce_cookie_k4_w2 = c19_nonce_cookie_2(4, 18);
    c19_nonce_cookie_k1_w3 = c19_nonce_cookie_3(1, 16);
    c19_nonce_cookie_k2_w3 = c19_nonce_cookie_3(2, 17);
    c19_nonce_cookie_k3_w3 = c19_nonce_cookie_3(3, 18);
    c19_nonce_cookie_ascii_k3 = c19_nonce_cookie_ascii(3, 12);
    c19_nonce_cookie_ascii_k4 = c19_nonce_cookie_ascii(4, 13);
    c19_nonce_cookie_ascii_k6 = c19_nonce_cookie_ascii(6, 15);
}
