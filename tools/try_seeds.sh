#!/bin/bash
# try_seeds.sh "<seed>:<prop>[:only-substr,...]" ... : runs the given (seed, property) trials one after the other
for sp in "$@"; do
  s=${sp%%:*}; rest=${sp#*:}; p=${rest%%:*}; only=""
  if [[ "$rest" == *:* ]]; then only="--only ${rest#*:}"; only=${only//,/ }; fi
  /verif/tools/try_seed.sh $s $p $only > /tmp/seedtrial_${s}_${p}.log 2>&1
  echo "$s $p $(tail -1 /tmp/seedtrial_${s}_${p}.log)" | tee -a /tmp/seedtrials.txt
done
