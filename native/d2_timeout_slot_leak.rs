// Native confirmation of finding D2 (C05/C12/C17): after the final time-out the transaction stayed
// in the client's table: the slot was never freed and a late response was delivered after
// TransactionFailed(TimedOut).  Fails on fcb849c..896cd72, passes with the fix: commit.
use std::time::{Duration, Instant};
use stun_agent::{StunAgentError, StunAttributes, StunClienteBuilder, StunClientEvent, TransportReliability};
use stun_rs::methods::BINDING;
use stun_rs::{MessageClass, MessageEncoderBuilder, StunMessageBuilder};

#[test]
fn timed_out_request_frees_its_slot_and_falls_silent() {
    let mut client = StunClienteBuilder::new(TransportReliability::Reliable(Duration::from_secs(5)))
        .with_max_transactions(1)
        .build()
        .unwrap();
    let t0 = Instant::now();
    let id = client.send_request(BINDING, StunAttributes::default(), vec![0; 64], t0).unwrap();
    let _ = client.events();
    client.on_timeout(t0 + Duration::from_secs(6));
    let ev = client.events();
    assert!(ev.iter().any(|e| matches!(e, StunClientEvent::TransactionFailed(_))), "timed out");
    // a late success response for the failed id must be discarded
    let msg = StunMessageBuilder::new(BINDING, MessageClass::SuccessResponse).with_transaction_id(id).build();
    let mut buf = [0u8; 64];
    let n = MessageEncoderBuilder::default().build().encode(&mut buf, &msg).unwrap();
    let r = client.on_buffer_recv(&buf[..n], t0 + Duration::from_secs(7));
    assert_eq!(r, Err(StunAgentError::Discarded), "late response after the final outcome");
    assert!(client.events().is_empty());
    // and the slot is free again
    assert!(client.send_request(BINDING, StunAttributes::default(), vec![0; 64], t0 + Duration::from_secs(8)).is_ok());
}
