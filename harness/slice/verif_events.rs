// Child module of the real events.rs: a recording wrapper around TransactionEvents::push.
// The event is recorded into scalar ghost state (cheap for the solver: no reads through the
// heap-allocated Vec of enums) and then pushed for real, so the commit-on-drop logic of
// events.rs is still the code under test.
#![allow(dead_code, static_mut_refs)]
use super::*;

pub const K_OUTPUT: u8 = 1;
pub const K_NOTE: u8 = 2;
pub const K_RETRY: u8 = 3;
pub const K_FAILED: u8 = 4;
pub const K_RECEIVED: u8 = 5;

pub const W_DONOTRETRY: u8 = 1;
pub const W_INVALIDFP: u8 = 2;
pub const W_NOTFOUND: u8 = 3;
pub const W_VIOLATED: u8 = 4;
pub const W_TIMEDOUT: u8 = 5;

#[derive(Clone, Copy)]
pub struct Rec {
    pub kind: u8,
    pub id: TransactionId,
    pub dur: Duration,
    pub token: u32,
    pub why: u8,
    pub class: stun_rs::MessageClass,
}
pub const NOREC: Rec = Rec { kind: 0, id: TransactionId(0), dur: Duration::ZERO, token: 0, why: 0, class: stun_rs::MessageClass::Request };
pub static mut REC: [Rec; 4] = [NOREC; 4];
pub static mut NREC: usize = 0;

pub fn rec_reset() {
    unsafe {
        REC = [NOREC; 4];
        NREC = 0;
    }
}

pub fn g_push<'a>(this: &mut TransactionEvents<'a>, event: StunClientEvent)
where
    'a: 'a, // makes the lifetime early-bound so that Kani's stub generics check matches the method's
{
    let mut r = NOREC;
    match &event {
        StunClientEvent::OutputPacket(p) => {
            r.kind = K_OUTPUT;
            r.token = p.token;
        }
        StunClientEvent::RestransmissionTimeOut((id, d)) => {
            r.kind = K_NOTE;
            r.id = *id;
            r.dur = *d;
        }
        StunClientEvent::Retry(id) => {
            r.kind = K_RETRY;
            r.id = *id;
        }
        StunClientEvent::TransactionFailed((id, why)) => {
            r.kind = K_FAILED;
            r.id = *id;
            r.why = match why {
                StunTransactionError::DoNotRetry => W_DONOTRETRY,
                StunTransactionError::InvalidFingerprint => W_INVALIDFP,
                StunTransactionError::NotFound => W_NOTFOUND,
                StunTransactionError::ProtectionViolated => W_VIOLATED,
                StunTransactionError::TimedOut => W_TIMEDOUT,
            };
        }
        StunClientEvent::StunMessageReceived(m) => {
            r.kind = K_RECEIVED;
            r.id = m.tid;
            r.class = m.class;
        }
    }
    unsafe {
        if NREC < 4 {
            REC[NREC] = r;
        }
        NREC += 1;
    }
    this.events.push(event);
}
