use super::*;
fn nofmt(_a: std::fmt::Arguments<'_>) -> String { String::new() }

#[kani::proof]
#[kani::unwind(5)]
#[kani::stub(alloc::fmt::format, nofmt)]
fn probe_get_input_text() {
    let mut buf: [u8; 36] = kani::any();
    buf[0] &= 0x3f;
    buf[4] = 0x21; buf[5] = 0x12; buf[6] = 0xa4; buf[7] = 0x42;
    let t: u16 = kani::any();
    let r = get_input_text(&buf, t);
    if let Ok(v) = &r {
        // prefix property: out = buf[..20+pos] with bytes 2..4 = end of attr
        assert!(v.len() >= 20 && v.len() <= 36 && v.len() % 4 == 0);
        let mut i = 0;
        while i < 36 { if i < v.len() && i != 2 && i != 3 { assert!(v[i] == buf[i]); } i += 1; }
        // the attribute at offset v.len() has type t
        let off = v.len();
        assert!(off + 4 <= 36);
        assert!(((buf[off] as u16) << 8 | buf[off+1] as u16) == t);
        let alen = ((buf[off+2] as usize) << 8) | buf[off+3] as usize;
        let end = off - 20 + 4 + alen + ((4 - (alen & 3)) & 3);
        assert!(((v[2] as usize) << 8 | v[3] as usize) == end);
    }
    std::mem::forget(r);
}
