use super::*;

#[repr(C)]
struct RawTs { sec: i64, nsec: u32, pad: u32 }

pub fn any_instant() -> Instant {
    let sec: i64 = kani::any();
    let nsec: u32 = kani::any();
    kani::assume(sec >= 0 && sec < 1_000_000);
    kani::assume(nsec < 1_000_000_000);
    unsafe { std::mem::transmute::<RawTs, Instant>(RawTs { sec, nsec, pad: 0 }) }
}

// RC<=4, rto in ms <= 2^16, calls: 3 symbolic instants
#[kani::proof]
#[kani::unwind(6)]
fn probe_rto_manager() {
    let rto_ms: u32 = kani::any();
    kani::assume(rto_ms >= 1 && rto_ms <= 60_000);
    let rm: u32 = kani::any();
    kani::assume(rm >= 1 && rm <= 32);
    let rc: u32 = kani::any();
    kani::assume(rc >= 1 && rc <= 4);
    let rto = Duration::from_millis(rto_ms as u64);
    let mut m = RtoManager::new(rto, rm, rc);
    let t0 = any_instant();
    let first = m.next_rto(t0);
    assert!(first == Some(if rc == 1 { rto * rm } else { rto }));
    // a late/early second call
    let d1_ms: u32 = kani::any();
    kani::assume(d1_ms <= 10_000_000);
    let t1 = t0 + Duration::from_millis(d1_ms as u64);
    let r1 = m.next_rto(t1);
    // reference: absolute deadlines t0 + (2^k - 1) rto for k=1..rc-1, final (2^(rc-1)-1+rm) rto
    let mut deadline_ms: u64 = 0;
    let mut found: Option<u64> = None;
    let mut k = 0;
    while k < rc {
        let step = if k == rc - 1 { rm as u64 } else { 1u64 << k };
        deadline_ms += step * rto_ms as u64;
        if deadline_ms > d1_ms as u64 { found = Some(deadline_ms); break; }
        k += 1;
    }
    match found {
        Some(dl) => assert!(r1 == Some(Duration::from_millis(dl - d1_ms as u64))),
        None => assert!(r1.is_none()),
    }
}

// concrete RTO (500ms), symbolic rm/rc and 3 call instants
#[kani::proof]
#[kani::unwind(9)]
fn probe_rto_manager_c500() {
    let rto_ms: u64 = 500;
    let rm: u32 = kani::any();
    kani::assume(rm >= 1 && rm <= 32);
    let rc: u32 = kani::any();
    kani::assume(rc >= 1 && rc <= 7);
    let rto = Duration::from_millis(rto_ms);
    let mut m = RtoManager::new(rto, rm, rc);
    let t0 = any_instant();
    let first = m.next_rto(t0);
    assert!(first == Some(if rc == 1 { rto * rm } else { rto }));
    let d1_us: u64 = kani::any();
    kani::assume(d1_us <= 100_000_000);
    let d2_us: u64 = kani::any();
    kani::assume(d2_us >= d1_us && d2_us <= 100_000_000);
    let r1 = m.next_rto(t0 + Duration::from_micros(d1_us));
    let r2 = m.next_rto(t0 + Duration::from_micros(d2_us));
    // reference
    let mut deadline_us: u64 = 0;
    let mut exp1: Option<u64> = None;
    let mut exp2: Option<u64> = None;
    let mut k = 0;
    while k < rc {
        let step = if k == rc - 1 { rm as u64 } else { 1u64 << k };
        deadline_us += step * rto_ms * 1000;
        if exp1.is_none() && deadline_us > d1_us { exp1 = Some(deadline_us); }
        if exp2.is_none() && deadline_us > d2_us { exp2 = Some(deadline_us); }
        k += 1;
    }
    match exp1 {
        Some(dl) => assert!(r1 == Some(Duration::from_micros(dl - d1_us))),
        None => assert!(r1.is_none()),
    }
    if exp1.is_some() {
        match exp2 {
            Some(dl) => assert!(r2 == Some(Duration::from_micros(dl - d2_us))),
            None => assert!(r2.is_none()),
        }
    }
}

fn instant_at(sec: i64, nsec: u32) -> Instant {
    unsafe { std::mem::transmute::<RawTs, Instant>(RawTs { sec, nsec, pad: 0 }) }
}
fn any_offset(max_secs: u64) -> Duration {
    let s: u64 = kani::any(); let n: u32 = kani::any();
    kani::assume(s <= max_secs); kani::assume(n < 1_000_000_000);
    Duration::new(s, n)
}
// concrete RTO=500ms; rm, rc symbolic small; reference via repeated addition only
#[kani::proof]
#[kani::unwind(34)]
fn probe_rto_manager_add() {
    let rm: u32 = kani::any(); kani::assume(rm >= 1 && rm <= 32);
    let rc: u32 = kani::any(); kani::assume(rc >= 1 && rc <= 7);
    let rto = Duration::from_millis(500);
    let mut m = RtoManager::new(rto, rm, rc);
    let t0 = instant_at(1000, 0);
    let first = m.next_rto(t0);
    assert!(first.is_some());
    let d1 = any_offset(60);
    let d2 = any_offset(60);
    kani::assume(d2 >= d1);
    let r1 = m.next_rto(t0 + d1);
    let r2 = m.next_rto(t0 + d2);
    // reference deadlines by repeated addition
    let mut deadline = Duration::ZERO;
    let mut exp1: Option<Duration> = None;
    let mut exp2: Option<Duration> = None;
    let mut k = 0u32;
    let mut mult = 1u32;
    while k < rc {
        let reps = if k == rc - 1 { rm } else { mult };
        let mut j = 0; while j < reps { deadline += rto; j += 1; }
        if exp1.is_none() && deadline > d1 { exp1 = Some(deadline); }
        if exp2.is_none() && deadline > d2 { exp2 = Some(deadline); }
        mult *= 2; k += 1;
    }
    match exp1 { Some(dl) => assert!(r1 == Some(dl - d1)), None => assert!(r1.is_none()) }
    if exp1.is_some() {
        match exp2 { Some(dl) => assert!(r2 == Some(dl - d2)), None => assert!(r2.is_none()) }
    }
}

#[kani::proof]
#[kani::unwind(9)]
fn probe_rto_manager_lf() {
    let rm: u32 = kani::any(); kani::assume(rm >= 1 && rm <= 32);
    let rc: u32 = kani::any(); kani::assume(rc >= 1 && rc <= 7);
    let rto = Duration::from_millis(500);
    let mut m = RtoManager::new(rto, rm, rc);
    let t0 = instant_at(1000, 0);
    let first = m.next_rto(t0);
    assert!(first.is_some());
    let d1 = any_offset(60);
    let d2 = any_offset(60);
    kani::assume(d2 >= d1);
    let r1 = m.next_rto(t0 + d1);
    let r2 = m.next_rto(t0 + d2);
    let n1 = d1.as_secs() * 1_000_000_000 + d1.subsec_nanos() as u64;
    let n2 = d2.as_secs() * 1_000_000_000 + d2.subsec_nanos() as u64;
    // reference deadlines (ns), loop-free per k
    let base: u64 = 500_000_000;
    let mut exp1: Option<u64> = None;
    let mut exp2: Option<u64> = None;
    let mut k = 0u32;
    while k < 7 {
        if k < rc {
            let units: u64 = if k == rc - 1 { ((1u64 << k) - 1) + rm as u64 } else { (1u64 << (k + 1)) - 1 };
            let dl = base * units;
            if exp1.is_none() && dl > n1 { exp1 = Some(dl); }
            if exp2.is_none() && dl > n2 { exp2 = Some(dl); }
        }
        k += 1;
    }
    match (exp1, r1) {
        (Some(dl), Some(r)) => assert!(r.as_secs() * 1_000_000_000 + r.subsec_nanos() as u64 == dl - n1),
        (None, None) => {}
        _ => assert!(false),
    }
    if exp1.is_some() {
        match (exp2, r2) {
            (Some(dl), Some(r)) => assert!(r.as_secs() * 1_000_000_000 + r.subsec_nanos() as u64 == dl - n2),
            (None, None) => {}
            _ => assert!(false),
        }
    }
}

#[repr(C)] #[derive(Clone, Copy)]
struct RawTs2 { sec: i64, nsec: u32, pad: u32 }
fn stub_checked_duration_since(this: &Instant, earlier: Instant) -> Option<Duration> {
    let a: RawTs2 = unsafe { std::mem::transmute_copy(this) };
    let b: RawTs2 = unsafe { std::mem::transmute_copy(&earlier) };
    if (a.sec, a.nsec) >= (b.sec, b.nsec) {
        let (s, n) = if a.nsec >= b.nsec { ((a.sec - b.sec) as u64, a.nsec - b.nsec) } else { ((a.sec - b.sec - 1) as u64, a.nsec + 1_000_000_000 - b.nsec) };
        Some(Duration::new(s, n))
    } else { None }
}

// one call from a reachable state: i on-time calls (i symbolic), then one arbitrary call
#[kani::proof]
#[kani::unwind(9)]
#[kani::stub(std::time::Instant::checked_duration_since, stub_checked_duration_since)]
fn probe_rto_one_call() {
    let rm: u32 = kani::any(); kani::assume(rm >= 1 && rm <= 32);
    let rc: u32 = kani::any(); kani::assume(rc >= 1 && rc <= 7);
    let rto = Duration::from_millis(500);
    let mut m = RtoManager::new(rto, rm, rc);
    let t0 = instant_at(1000, 0);
    let base: u64 = 500_000_000;
    let first = m.next_rto(t0);
    assert!(first.is_some());
    // i on-time calls
    let i: u32 = kani::any(); kani::assume(i < rc && i <= 6);
    let mut k = 0u32;
    let mut now_ns: u64 = 0;
    while k < 6 {
        if k < i {
            let units: u64 = (1u64 << (k + 1)) - 1;
            now_ns = base * units;
            let r = m.next_rto(t0 + Duration::new(now_ns / 1_000_000_000, (now_ns % 1_000_000_000) as u32));
            assert!(r.is_some() || k + 1 == rc);
        }
        k += 1;
    }
    // one arbitrary later call
    let d = any_offset(60);
    let n = d.as_secs() * 1_000_000_000 + d.subsec_nanos() as u64;
    kani::assume(n >= now_ns);
    let r = m.next_rto(t0 + d);
    let mut exp: Option<u64> = None;
    let mut k = 0u32;
    while k < 7 {
        if k < rc {
            let units: u64 = if k == rc - 1 { ((1u64 << k) - 1) + rm as u64 } else { (1u64 << (k + 1)) - 1 };
            let dl = base * units;
            if exp.is_none() && dl > n { exp = Some(dl); }
        }
        k += 1;
    }
    match (exp, r) {
        (Some(dl), Some(r)) => assert!(r.as_secs() * 1_000_000_000 + r.subsec_nanos() as u64 == dl - n),
        (None, None) => {}
        _ => assert!(false),
    }
}

#[kani::proof]
#[kani::unwind(9)]

fn probe_rto_h1() {
    let rm: u32 = 16;
    let rc: u32 = 7;
    let rto = Duration::from_millis(500);
    let mut m = RtoManager::new(rto, rm, rc);
    let t0 = instant_at(1000, 0);
    let base: u64 = 500_000_000;
    let first = m.next_rto(t0);
    assert!(first == Some(rto));
    let d = any_offset(60);
    let n = d.as_secs() * 1_000_000_000 + d.subsec_nanos() as u64;
    let r = m.next_rto(t0 + d);
    let mut exp: Option<u64> = None;
    let mut k = 0u32;
    while k < 7 {
        let units: u64 = if k == rc - 1 { ((1u64 << k) - 1) + rm as u64 } else { (1u64 << (k + 1)) - 1 };
        let dl = base * units;
        if exp.is_none() && dl > n { exp = Some(dl); }
        k += 1;
    }
    match (exp, r) {
        (Some(dl), Some(r)) => assert!(r.as_secs() * 1_000_000_000 + r.subsec_nanos() as u64 == dl - n),
        (None, None) => {}
        _ => assert!(false),
    }
}

#[kani::proof]
#[kani::unwind(9)]
#[kani::stub(std::time::Instant::checked_duration_since, stub_checked_duration_since)]
fn probe_rto_h2() {
    let rm: u32 = 16;
    let rc: u32 = 7;
    let rto = Duration::from_millis(500);
    let mut m = RtoManager::new(rto, rm, rc);
    let t0 = instant_at(1000, 0);
    let base: u64 = 500_000_000;
    let first = m.next_rto(t0);
    assert!(first == Some(rto));
    let d = any_offset(60);
    let n = d.as_secs() * 1_000_000_000 + d.subsec_nanos() as u64;
    let r = m.next_rto(t0 + d);
    let mut exp: Option<u64> = None;
    let mut k = 0u32;
    while k < 7 {
        let units: u64 = if k == rc - 1 { ((1u64 << k) - 1) + rm as u64 } else { (1u64 << (k + 1)) - 1 };
        let dl = base * units;
        if exp.is_none() && dl > n { exp = Some(dl); }
        k += 1;
    }
    match (exp, r) {
        (Some(dl), Some(r)) => assert!(r.as_secs() * 1_000_000_000 + r.subsec_nanos() as u64 == dl - n),
        (None, None) => {}
        _ => assert!(false),
    }
}

#[kani::proof]
#[kani::unwind(9)]

fn probe_rto_h3() {
    let rm: u32 = { let x: u32 = kani::any(); kani::assume(x >= 1 && x <= 32); x };
    let rc: u32 = 7;
    let rto = Duration::from_millis(500);
    let mut m = RtoManager::new(rto, rm, rc);
    let t0 = instant_at(1000, 0);
    let base: u64 = 500_000_000;
    let first = m.next_rto(t0);
    assert!(first == Some(rto));
    let d = any_offset(60);
    let n = d.as_secs() * 1_000_000_000 + d.subsec_nanos() as u64;
    let r = m.next_rto(t0 + d);
    let mut exp: Option<u64> = None;
    let mut k = 0u32;
    while k < 7 {
        let units: u64 = if k == rc - 1 { ((1u64 << k) - 1) + rm as u64 } else { (1u64 << (k + 1)) - 1 };
        let dl = base * units;
        if exp.is_none() && dl > n { exp = Some(dl); }
        k += 1;
    }
    match (exp, r) {
        (Some(dl), Some(r)) => assert!(r.as_secs() * 1_000_000_000 + r.subsec_nanos() as u64 == dl - n),
        (None, None) => {}
        _ => assert!(false),
    }
}
