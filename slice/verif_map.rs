// Linear-scan model of the subset of std HashMap/HashSet API used by stun-agent.
#[derive(Debug)]
pub struct VecMap<K, V> { items: Vec<(K, V)> }
impl<K, V> Default for VecMap<K, V> { fn default() -> Self { Self { items: Vec::new() } } }
impl<K: PartialEq, V> VecMap<K, V> {
    pub fn new() -> Self { Self::default() }
    pub fn len(&self) -> usize { self.items.len() }
    fn pos(&self, k: &K) -> Option<usize> {
        let mut i = 0;
        while i < self.items.len() { if &self.items[i].0 == k { return Some(i); } i += 1; }
        None
    }
    pub fn contains_key(&self, k: &K) -> bool { self.pos(k).is_some() }
    pub fn insert(&mut self, k: K, v: V) -> Option<V> {
        match self.pos(&k) {
            Some(i) => Some(std::mem::replace(&mut self.items[i].1, v)),
            None => { self.items.push((k, v)); None }
        }
    }
    pub fn get_mut(&mut self, k: &K) -> Option<&mut V> {
        match self.pos(k) { Some(i) => Some(&mut self.items[i].1), None => None }
    }
    pub fn remove(&mut self, k: &K) -> Option<V> {
        match self.pos(k) { Some(i) => Some(self.items.swap_remove(i).1), None => None }
    }
    pub fn get(&self, k: &K) -> Option<&V> {
        match self.pos(k) { Some(i) => Some(&self.items[i].1), None => None }
    }
    pub fn is_empty(&self) -> bool { self.items.is_empty() }
    pub fn clear(&mut self) { self.items.clear() }
    pub fn iter(&self) -> impl Iterator<Item = (&K, &V)> { self.items.iter().map(|(k, v)| (k, v)) }
    pub fn keys(&self) -> impl Iterator<Item = &K> { self.items.iter().map(|(k, _)| k) }
    pub fn values(&self) -> impl Iterator<Item = &V> { self.items.iter().map(|(_, v)| v) }
    pub fn retain<F: FnMut(&K, &mut V) -> bool>(&mut self, mut f: F) { self.items.retain_mut(|(k, v)| f(k, v)) }
}
#[derive(Debug)]
pub struct VecSet<K> { m: VecMap<K, ()> }
impl<K> Default for VecSet<K> { fn default() -> Self { Self { m: VecMap::default() } } }
impl<K: PartialEq> VecSet<K> {
    pub fn new() -> Self { Self::default() }
    pub fn insert(&mut self, k: K) -> bool { self.m.insert(k, ()).is_none() }
    pub fn remove(&mut self, k: &K) -> bool { self.m.remove(k).is_some() }
    pub fn contains(&self, k: &K) -> bool { self.m.contains_key(k) }
    pub fn len(&self) -> usize { self.m.len() }
    pub fn is_empty(&self) -> bool { self.m.is_empty() }
    pub fn clear(&mut self) { self.m.clear() }
    pub fn iter(&self) -> impl Iterator<Item = &K> { self.m.keys() }
}
