// C15 kernel: RFC 6298 estimator.  Child module of stun-agent/src/rtt.rs.
// `Duration::mul_f32` is cut at std's boundary: stubbed by its exact-arithmetic contract for the
// constants the RFC prescribes (0.125, 0.25, 0.75, 0.875, 4.0); any other factor yields an
// arbitrary result, so a changed ALPHA/BETA/K surfaces as a failed assertion.
#![allow(dead_code, unused_imports)]
use super::*;
use crate::support_time::*;

fn mul_f32_contract(d: Duration, rhs: f32) -> Duration {
    let ns = ns_of(d);
    let out = if rhs == 0.125 {
        ns / 8
    } else if rhs == 0.25 {
        ns / 4
    } else if rhs == 0.75 {
        (ns / 4) * 3 + ((ns % 4) * 3) / 4
    } else if rhs == 0.875 {
        (ns / 8) * 7 + ((ns % 8) * 7) / 8
    } else if rhs == 4.0 {
        ns * 4
    } else {
        kani::any()
    };
    dur_of_ns(out)
}

const MAX_NS: u64 = NS + NS / 2; // 1.5 s: every intermediate value stays below 16 s (dur_of_ns bound)

fn any_dur(max_ns: u64) -> (Duration, u64) {
    let s: u64 = kani::any();
    let n: u32 = kani::any();
    kani::assume(s <= max_ns / NS && s < 16 && n < 1_000_000_000);
    let ns = s * NS + n as u64;
    kani::assume(ns <= max_ns);
    (Duration::new(s, n), ns)
}

// floor(3a/4), floor(7a/8) without overflow for a <= 2^40
fn three_quarters(a: u64) -> u64 {
    (a * 3) / 4
}
fn seven_eighths(a: u64) -> u64 {
    (a * 7) / 8
}

// first sample from a fresh estimator: SRTT = R, RTTVAR = R/2, RTO = SRTT + max(G, 4*RTTVAR)
#[kani::proof]
#[kani::unwind(3)]
#[kani::stub(std::time::Duration::mul_f32, mul_f32_contract)]
fn c15_first_sample() {
    let (g, g_ns) = any_dur(NS / 10);
    let (cfg, cfg_ns) = any_dur(10 * NS);
    let (r, r_ns) = any_dur(MAX_NS);
    kani::assume(r_ns > 0);
    let mut c = RttCalcuator::new(cfg, g);
    assert!(ns_of(c.rto()) == cfg_ns, "C15: starts at the configured value");
    c.update(r);
    let var = r_ns / 2;
    let k4 = 4 * var;
    let exp = r_ns + if g_ns > k4 { g_ns } else { k4 };
    assert!(ns_of(c.rto()) == exp, "C15: first sample RTO = R + max(G, 4*R/2), not rounded");
    assert!(ns_of(c.srtt) == r_ns && ns_of(c.rttvar) == var);
    kani::cover!(g_ns > k4);
    kani::cover!(g_ns < k4);
}

// later samples from an arbitrary estimator state: RTTVAR updated before SRTT
#[kani::proof]
#[kani::unwind(3)]
#[kani::stub(std::time::Duration::mul_f32, mul_f32_contract)]
fn c15_later_sample_step() {
    let (g, g_ns) = any_dur(NS / 10);
    let (srtt, s_ns) = any_dur(MAX_NS);
    let (rttvar, v_ns) = any_dur(MAX_NS);
    let (r, r_ns) = any_dur(MAX_NS);
    kani::assume(s_ns > 0 && r_ns > 0);
    let mut c = RttCalcuator::new(Duration::from_millis(500), g);
    c.update(Duration::from_millis(1)); // leaves the "no sample yet" state through the public API
    c.srtt = srtt;
    c.rttvar = rttvar;
    c.update(r);
    let diff = if s_ns > r_ns { s_ns - r_ns } else { r_ns - s_ns };
    let v2 = three_quarters(v_ns) + diff / 4;
    let s2 = seven_eighths(s_ns) + r_ns / 8;
    let k4 = 4 * v2;
    let exp = s2 + if g_ns > k4 { g_ns } else { k4 };
    assert!(ns_of(c.rttvar) == v2, "C15: RTTVAR' = 3/4 RTTVAR + 1/4 |SRTT - R| (old SRTT)");
    assert!(ns_of(c.srtt) == s2, "C15: SRTT' = 7/8 SRTT + 1/8 R");
    assert!(ns_of(c.rto()) == exp, "C15: RTO = SRTT' + max(G, 4 RTTVAR')");
    kani::cover!(g_ns > k4);
    kani::cover!(s_ns > r_ns && g_ns < k4);
    kani::cover!(s_ns < r_ns);
}

// reset() returns to the configured value and the next sample is again a first sample
#[kani::proof]
#[kani::unwind(3)]
#[kani::stub(std::time::Duration::mul_f32, mul_f32_contract)]
fn c15_reset_then_first_sample() {
    let (g, g_ns) = any_dur(NS / 10);
    let (cfg, cfg_ns) = any_dur(10 * NS);
    let (r0, r0_ns) = any_dur(MAX_NS);
    let (r, r_ns) = any_dur(MAX_NS);
    kani::assume(r0_ns > 0 && r_ns > 0);
    let mut c = RttCalcuator::new(cfg, g);
    c.update(r0);
    c.reset();
    assert!(ns_of(c.rto()) == cfg_ns, "C15: reset restores the configured RTO");
    c.update(r);
    let k4 = 4 * (r_ns / 2);
    let exp = r_ns + if g_ns > k4 { g_ns } else { k4 };
    assert!(ns_of(c.rto()) == exp, "C15: the first sample after a reset is a first measurement");
}

// two samples through the public API only
#[kani::proof]
#[kani::unwind(3)]
#[kani::stub(std::time::Duration::mul_f32, mul_f32_contract)]
fn c15_two_samples_api() {
    let (g, g_ns) = any_dur(NS / 10);
    let (r1, r1_ns) = any_dur(MAX_NS);
    let (r2, r2_ns) = any_dur(MAX_NS);
    kani::assume(r1_ns > 0 && r2_ns > 0);
    let mut c = RttCalcuator::new(Duration::from_millis(500), g);
    c.update(r1);
    c.update(r2);
    let v1 = r1_ns / 2;
    let diff = if r1_ns > r2_ns { r1_ns - r2_ns } else { r2_ns - r1_ns };
    let v2 = three_quarters(v1) + diff / 4;
    let s2 = seven_eighths(r1_ns) + r2_ns / 8;
    let k4 = 4 * v2;
    let exp = s2 + if g_ns > k4 { g_ns } else { k4 };
    assert!(ns_of(c.rto()) == exp);
}
