// Shared stubs and helpers for the stun-rs harnesses (DESIGN §1.2).
#![allow(dead_code)]

/// `nofmt`: replaces alloc::fmt::format — error texts are outside every claim.
pub fn nofmt(_a: std::fmt::Arguments<'_>) -> String {
    String::new()
}

/// `tid_any`: replaces <TransactionId as Default>::default (rand reaches SIMD intrinsics).
pub fn tid_any() -> crate::types::TransactionId {
    let b: [u8; 12] = kani::any();
    crate::types::TransactionId::from(b)
}

/// `qs_any`: over-approximates the pest quoted-string grammar.
pub fn qs_any(_l: quoted_string_parser::QuotedStringParseLevel, _s: &str) -> bool {
    kani::any()
}

/// A valid STUN header in `buf[..20]` with symbolic type bits/transaction id and the given length.
pub fn put_header(buf: &mut [u8], msg_len: u16) {
    buf[0] &= 0x3f;
    buf[2] = (msg_len >> 8) as u8;
    buf[3] = msg_len as u8;
    buf[4] = 0x21;
    buf[5] = 0x12;
    buf[6] = 0xa4;
    buf[7] = 0x42;
}
