// C08 (and the credential-state half of C17) on the REAL lt_cred_mech.rs + integrity.rs + message.rs,
// compiled against the attribute-level environment model of stun-rs.  Child module of lt_cred_mech.rs.
//
// Key identity in the model: HMACKey::new_long_term(user, realm, password, alg).id = 16 + 4*realm + alg
// (alg: MD5 = 1, SHA-256 = 2), i.e. a key is determined by what RFC 8489 §9.2.2 derives it from.
#![allow(dead_code, unused_imports, static_mut_refs)]
use super::*;
use crate::support_time::nofmt;
// exclusion constants of the two (unregistered) request-forming deviations; when their harnesses are
// registered these come from known_findings.json through verif_cfg.rs
const KF_C08_RETRY401_NO_INTEGRITY: bool = true;
const KF_C08_RETRY438_NO_PASSWORD_ALGORITHMS: bool = true;
use stun_rs::attrs_model::{ErrorCodeAttr, Fingerprint, Other, StunAttribute as SA};
use stun_rs::{ErrorCode, StunAttribute, ENV2};

fn key_id(realm: u8, alg: AlgorithmId) -> u8 {
    16 + (realm & 3) * 4 + if alg == AlgorithmId::SHA256 { 2 } else { 1 }
}
fn any_alg_id() -> AlgorithmId {
    let k: u8 = kani::any();
    kani::assume(k < 3);
    match k {
        0 => AlgorithmId::MD5,
        1 => AlgorithmId::SHA256,
        _ => AlgorithmId::Unassigned(7),
    }
}
fn any_nonce() -> Nonce {
    Nonce { tok: kani::any(), cookie: kani::any(), flags_ok: kani::any(), anonymity: kani::any(), pwd_algs: kani::any() }
}
fn any_algs() -> PasswordAlgorithms {
    let n: u8 = kani::any();
    kani::assume(n >= 1 && n <= 2);
    PasswordAlgorithms { tok: kani::any(), n, list: [PasswordAlgorithm(Algorithm::from(any_alg_id())), PasswordAlgorithm(Algorithm::from(any_alg_id()))] }
}
/// the algorithm RFC 8489 §9.2.5 / the implementation's documented preference picks from a list:
/// SHA-256 if offered, else MD5 if offered, else none
fn pick(a: &PasswordAlgorithms) -> Option<AlgorithmId> {
    let mut md5 = false;
    let mut i = 0;
    while i < a.n as usize {
        match a.list[i].0.id {
            AlgorithmId::SHA256 => return Some(AlgorithmId::SHA256),
            AlgorithmId::MD5 => md5 = true,
            _ => {}
        }
        i += 1;
    }
    if md5 {
        Some(AlgorithmId::MD5)
    } else {
        None
    }
}

#[derive(Clone, Copy)]
struct P {
    realm: u8,
    nonce: Nonce,
    algs: Option<PasswordAlgorithms>,
    alg: Option<AlgorithmId>,
    key: u8,
    user_hash: Option<u8>,
    sha: bool,
}
/// cached parameters with a CONCRETE shape (which options are present) and symbolic contents:
/// a symbolic Option shape makes every list operation run with symbolic lengths (probe: 30 GB)
fn params_shaped(hash: bool, with_algs: bool) -> P {
    let realm: u8 = kani::any();
    kani::assume(realm < 4);
    let (algs, alg) = if with_algs {
        let a = any_algs();
        let p = pick(&a);
        kani::assume(p.is_some()); // cached parameters always hold a supported choice
        (Some(a), p)
    } else {
        (None, None)
    };
    P {
        realm,
        nonce: any_nonce(),
        algs,
        alg,
        key: key_id(realm, alg.unwrap_or(AlgorithmId::MD5)),
        user_hash: if hash { Some(realm) } else { None },
        sha: with_algs,
    }
}
fn install(c: &mut LongTermCredentialClient, p: &P) {
    c.params = Some(LongTermCredentialAttributes {
        realm: Realm(p.realm),
        nonce: p.nonce,
        password_algorithms: p.algs,
        password_algorithm: p.alg.map(|a| PasswordAlgorithm(Algorithm::from(a))),
        key: HMACKey { id: p.key },
        user_hash: p.user_hash.map(UserHash),
        integrity: if p.sha { Integrity::MessageIntegritySha256 } else { Integrity::MessageIntegrity },
    });
}
fn params_eq(c: &LongTermCredentialClient, p: &P) -> bool {
    match &c.params {
        None => false,
        Some(q) => {
            q.realm == Realm(p.realm)
                && q.nonce == p.nonce
                && q.password_algorithms == p.algs
                && q.password_algorithm == p.alg.map(|a| PasswordAlgorithm(Algorithm::from(a)))
                && q.key.id == p.key
                && q.user_hash == p.user_hash.map(UserHash)
                && (q.integrity == Integrity::MessageIntegritySha256) == p.sha
        }
    }
}
fn any_state() -> (LongTermCredentialState, u8) {
    let k: u8 = kani::any();
    kani::assume(k < 4);
    (
        match k {
            0 => LongTermCredentialState::FirstRequest,
            1 => LongTermCredentialState::Retry(RetryCause::Unauthenticated),
            2 => LongTermCredentialState::Retry(RetryCause::StaleNonce),
            _ => LongTermCredentialState::SubsequentRequest,
        },
        k,
    )
}

// =============================================================================================
// request forming (C08 first half, C13 for the long-term decoration)
//   APP: 0 = one ordinary attribute, 1 = application pre-populates USERNAME + REALM + NONCE + MI
// =============================================================================================
/// STATE: 0 first, 1 retry after 401, 2 retry after 438, 3 subsequent.  HASH / ALGS: whether the
/// cached parameters hold a USERHASH / offered algorithms (concrete per instance so that the
/// expected list has a concrete shape).  APP: 0 = one ordinary attribute, 1 = the application
/// pre-populates USERNAME, REALM, NONCE, MESSAGE-INTEGRITY.  TWIN: 0 = property (with the listed
/// known findings excluded), 1 / 2 = twin asserting exactly the role of a known finding.
fn c08_prepare<const STATE: u8, const HASH: bool, const ALGS: bool, const APP: u8, const TWIN: u8>() {
    let mut c = LongTermCredentialClient::new(UserName(1), "p", kani::any());
    let mut p = params_shaped(HASH, ALGS);
    if STATE != 0 || APP == 1 {
        install(&mut c, &p);
    }
    c.state = match STATE {
        0 => LongTermCredentialState::FirstRequest,
        1 => LongTermCredentialState::Retry(RetryCause::Unauthenticated),
        2 => LongTermCredentialState::Retry(RetryCause::StaleNonce),
        _ => LongTermCredentialState::SubsequentRequest,
    };
    let mut app = crate::message::verif_message::attributes_with_capacity(8);
    let ord = SA::Other(Other { code: 0x8022, val: kani::any() });
    app.add(ord);
    if APP == 1 {
        app.add(UserName(3));
        app.add(Realm(3));
        app.add(Nonce { tok: 99, cookie: false, flags_ok: false, anonymity: false, pwd_algs: false });
        app.add(MessageIntegrity::Encodable(HMACKey { id: 9 }));
    }
    let r = c.prepare_request(&mut app);
    assert!(r.is_ok(), "C08: a request can always be formed in this state");
    // The prepared list is observed through the real `StunAttributes::remove::<T>()` (each call hands
    // the attribute of that type out by value): reading the elements back through the heap Vec with
    // full enum comparisons exhausted 20 GB in the 5-attribute shapes.
    let algs_listed = ALGS && !(STATE == 2 && TWIN == 0 && KF_C08_RETRY438_NO_PASSWORD_ALGORITHMS);
    let integrity_listed = !(STATE == 1 && TWIN == 0 && KF_C08_RETRY401_NO_INTEGRITY);
    let key = HMACKey { id: p.key };
    let user = app.remove::<UserName>();
    let hash = app.remove::<UserHash>();
    let realm = app.remove::<Realm>();
    let nonce = app.remove::<Nonce>();
    let algs = app.remove::<PasswordAlgorithms>();
    let alg = app.remove::<PasswordAlgorithm>();
    let mi = app.remove::<MessageIntegrity>();
    let sha = app.remove::<MessageIntegritySha256>();
    if STATE == 0 {
        assert!(user.is_none() && hash.is_none() && realm.is_none() && nonce.is_none() && algs.is_none() && alg.is_none() && mi.is_none() && sha.is_none(),
            "C08: the first request carries no credential attributes (application-supplied ones are removed)");
    } else {
        if HASH {
            assert!(user.is_none() && hash == Some(SA::UserHash(UserHash(p.realm))), "C08: USERHASH (not USERNAME) when the nonce cookie asked for anonymity");
        } else {
            assert!(hash.is_none() && user == Some(SA::UserName(UserName(1))), "C08: the configured USERNAME (application-supplied one replaced)");
        }
        assert!(realm == Some(SA::Realm(Realm(p.realm))), "C08: the REALM from the server");
        assert!(nonce == Some(SA::Nonce(p.nonce)), "C08: the most recent NONCE from the server");
        if algs_listed {
            assert!(algs == Some(SA::PasswordAlgorithms(p.algs.unwrap())) && alg == Some(SA::PasswordAlgorithm(PasswordAlgorithm(Algorithm::from(p.alg.unwrap())))),
                "C08: offered PASSWORD-ALGORITHMS and chosen PASSWORD-ALGORITHM");
        } else if !ALGS {
            assert!(algs.is_none() && alg.is_none());
        }
        if integrity_listed {
            if ALGS {
                assert!(mi.is_none() && sha == Some(SA::MessageIntegritySha256(MessageIntegritySha256::Encodable(key))), "C08: SHA-256 integrity under the derived key when algorithms were offered");
            } else {
                assert!(sha.is_none() && mi == Some(SA::MessageIntegrity(MessageIntegrity::Encodable(key))), "C08: SHA-1 integrity under the derived key (application-supplied one replaced)");
            }
        }
    }
    // what is left is the application's ordinary attribute
    let rest: Vec<StunAttribute> = app.into();
    assert!(rest.len() == 1 && rest[0] == ord, "C13: application attributes are kept");
    p.key = p.key;
    std::mem::forget(rest);
    std::mem::forget(c);
}

#[kani::proof]
#[kani::unwind(10)]
#[kani::stub(alloc::fmt::format, nofmt)]
fn c08_prepare_without_params_or_indication() {
    let mut c = LongTermCredentialClient::new(UserName(1), "p", kani::any());
    let (st, k) = any_state();
    c.state = st;
    let mut app = crate::message::verif_message::attributes_with_capacity(8);
    app.add(SA::Other(Other { code: 0x8022, val: 1 }));
    if kani::any() {
        let r = c.prepare_indication(&mut app);
        assert!(r == Err(StunAgentError::Ignored), "C08: indications are refused");
    } else {
        let r = c.prepare_request(&mut app);
        assert!(r.is_ok() == (k == 0), "C08: without server parameters only a first request can be formed");
        std::mem::forget(r);
    }
    std::mem::forget(app);
    std::mem::forget(c);
}

// =============================================================================================
// one received message from an arbitrary state (C08 second half, C17 credential-state frame)
// =============================================================================================
struct Rx {
    class: MessageClass,
    code: Option<u16>,
    realm: Option<u8>,
    nonce: Option<Nonce>,
    algs: Option<PasswordAlgorithms>,
    mi: Option<u8>,  // key id the MAC verifies under
    sha: Option<u8>,
}
// shape bits of a received message (concrete per instance; contents symbolic)
const F_REALM: u32 = 1;
const F_NONCE: u32 = 2;
const F_ALGS: u32 = 4;
const F_MI: u32 = 8;
const F_SHA: u32 = 16;
fn rx_shaped(class: MessageClass, code: u16, shape: u32) -> Rx {
    let realm = if shape & F_REALM != 0 {
        let r: u8 = kani::any();
        kani::assume(r < 4);
        Some(r)
    } else {
        None
    };
    Rx {
        class,
        code: if code != 0 { Some(code) } else { None },
        realm,
        nonce: if shape & F_NONCE != 0 { Some(any_nonce()) } else { None },
        algs: if shape & F_ALGS != 0 { Some(any_algs()) } else { None },
        mi: if shape & F_MI != 0 { Some(kani::any()) } else { None },
        sha: if shape & F_SHA != 0 { Some(kani::any()) } else { None },
    }
}
fn msg_from(rx: &Rx, tid: u8) -> StunMessage {
    let mut m = StunMessage::light(rx.class, TransactionId(tid));
    if let Some(c) = rx.code {
        m.attrs.push(SA::ErrorCode(ErrorCodeAttr(ErrorCode { code: c })));
    }
    if let Some(r) = rx.realm {
        m.attrs.push(SA::Realm(Realm(r)));
    }
    if let Some(n) = rx.nonce {
        m.attrs.push(SA::Nonce(n));
    }
    if let Some(a) = rx.algs {
        m.attrs.push(SA::PasswordAlgorithms(a));
    }
    if let Some(k) = rx.mi {
        m.attrs.push(SA::MessageIntegrity(MessageIntegrity::Decodable(k)));
    }
    if let Some(k) = rx.sha {
        m.attrs.push(SA::MessageIntegritySha256(MessageIntegritySha256::Decodable(k)));
    }
    m
}

#[derive(PartialEq, Eq, Clone, Copy)]
enum Out {
    Ok,
    Retry,
    NotRetryable,
    Rejected, // ProtectionViolated on reliable, Discarded (+ marker) on unreliable: "authentication failed"
    Discarded, // dropped without marker
}

/// CLASS: 0 success, 1 error, 2 indication, 3 request.  CODE: error code (0 = no ERROR-CODE).
/// SHAPE: which attributes the message carries.  HAD: 0 = no cached parameters, 1 = cached without
/// algorithms/user hash, 2 = cached with algorithms and user hash.
/// ST: mechanism state before the message (0..3) or 9 = arbitrary; REL: 0 unreliable, 1 reliable, 2 = arbitrary
fn c08_recv_x<const CLASS: u8, const CODE: u16, const SHAPE: u32, const HAD: u8, const ST: u8, const REL: u8>() {
    let reliable: bool = if REL == 2 { kani::any() } else { REL == 1 };
    let mut c = LongTermCredentialClient::new(UserName(1), "p", reliable);
    let had = HAD != 0;
    let p = params_shaped(HAD == 2, HAD == 2);
    if had {
        install(&mut c, &p);
    }
    let (st, stk) = if ST == 9 {
        any_state()
    } else {
        (
            match ST {
                0 => LongTermCredentialState::FirstRequest,
                1 => LongTermCredentialState::Retry(RetryCause::Unauthenticated),
                2 => LongTermCredentialState::Retry(RetryCause::StaleNonce),
                _ => LongTermCredentialState::SubsequentRequest,
            },
            ST,
        )
    };
    c.state = st;
    let class = match CLASS {
        0 => MessageClass::SuccessResponse,
        1 => MessageClass::ErrorResponse,
        2 => MessageClass::Indication,
        _ => MessageClass::Request,
    };
    let rx = rx_shaped(class, CODE, SHAPE);
    unsafe {
        ENV2.input_text_ok = true;
        ENV2.key_derivation_fails = false;
        ENV2.user_hash_fails = false;
    }
    let tid = 7u8;
    let m = msg_from(&rx, tid);
    let r = c.recv_message(&[0u8; 20], &m);

    // ---------------- reference ----------------
    // authentication of a response under (key, kind): the attribute of that kind must be present
    // and verify; otherwise the failure rule applies
    let auth = |key: u8, sha: bool| -> bool {
        if sha {
            rx.sha == Some(key)
        } else {
            rx.mi == Some(key)
        }
    };
    let cookie_flags = match rx.nonce {
        Some(n) if n.cookie && n.flags_ok => Some((n.anonymity, n.pwd_algs)),
        _ => None,
    };
    let anonymity = matches!(cookie_flags, Some((true, _)));
    let need_algs = matches!(cookie_flags, Some((_, true)));
    let mut new_p: Option<P> = None;
    let want: Out = if CLASS >= 2 {
        Out::Discarded
    } else if CLASS == 1 {
        let unsupported = match &rx.algs {
            Some(a) => pick(a).is_none(),
            None => false,
        };
        if unsupported || (need_algs && rx.algs.is_none()) {
            Out::NotRetryable
        } else {
            match rx.code {
                None => Out::Discarded,
                Some(401) => match (rx.realm, rx.nonce) {
                    (Some(realm), Some(nonce)) => {
                        let alg = rx.algs.as_ref().and_then(pick);
                        let np = P {
                            realm,
                            nonce,
                            algs: rx.algs,
                            alg,
                            key: key_id(realm, alg.unwrap_or(AlgorithmId::MD5)),
                            user_hash: if anonymity { Some(realm) } else { None },
                            sha: rx.algs.is_some(),
                        };
                        if (rx.mi.is_some() || rx.sha.is_some()) && !auth(np.key, np.sha) {
                            Out::Rejected
                        } else {
                            new_p = Some(np);
                            Out::Retry
                        }
                    }
                    _ => Out::Discarded, // a 401 without realm or nonce is not a challenge
                },
                Some(438) => {
                    if rx.nonce.is_none() || !had {
                        Out::Discarded
                    } else if (rx.mi.is_some() || rx.sha.is_some()) && !auth(p.key, p.sha) {
                        Out::Rejected
                    } else {
                        let mut np = p;
                        np.nonce = rx.nonce.unwrap();
                        new_p = Some(np);
                        Out::Retry
                    }
                }
                Some(_) => {
                    if !had {
                        Out::Discarded
                    } else if auth(p.key, p.sha) {
                        Out::Ok
                    } else {
                        Out::Rejected
                    }
                }
            }
        }
    } else {
        // success response
        if !had {
            Out::Discarded
        } else if (p.sha && rx.mi.is_some()) || (!p.sha && rx.sha.is_some()) {
            Out::Discarded // protected with the algorithm that was not negotiated
        } else if auth(p.key, p.sha) {
            Out::Ok
        } else {
            Out::Rejected
        }
    };

    let marker = c.signal_protection_violated_on_timeout(&TransactionId(tid));
    match want {
        Out::Ok => {
            assert!(r == Ok(()), "C08: success / ordinary error responses are delivered when they verify under the derived key");
            assert!(c.state == LongTermCredentialState::SubsequentRequest);
            assert!(!had || params_eq(&c, &p), "C08: delivery does not change the cached parameters");
        }
        Out::Retry => {
            assert!(r == Err(IntegrityError::Retry), "C08: a 401 challenge with realm and nonce / a 438 with a new nonce tells the application to retry");
            match new_p {
                Some(np) => assert!(params_eq(&c, &np), "C08: parameters replaced by the challenge's (401) / nonce switched to the new one (438); key derived from the NEW realm and algorithm"),
                None => assert!(false),
            }
            let is401 = rx.code == Some(401);
            assert!(c.state == LongTermCredentialState::Retry(if is401 { RetryCause::Unauthenticated } else { RetryCause::StaleNonce }));
        }
        Out::NotRetryable => {
            assert!(r == Err(IntegrityError::NotRetryable), "C08: unsupported algorithm list / missing PASSWORD-ALGORITHMS: do not retry");
        }
        Out::Rejected => {
            if reliable {
                assert!(r == Err(IntegrityError::ProtectionViolated), "C08: wrongly keyed response on reliable transport");
            } else {
                assert!(r == Err(IntegrityError::Discarded) && marker, "C08: wrongly keyed response on unreliable transport is ignored (marker set)");
            }
        }
        Out::Discarded => {
            assert!(r == Err(IntegrityError::Discarded), "C08: not a usable message: dropped");
            assert!(!marker, "C17: no marker without an authentication failure");
        }
    }
    if want != Out::Ok && want != Out::Retry {
        // C17: a message that is not accepted leaves the credential state exactly as before
        if had {
            assert!(params_eq(&c, &p), "C17: cached realm / nonce / algorithms / key unchanged by a rejected message");
        } else {
            assert!(c.params.is_none(), "C17: no parameters invented by a rejected message");
        }
        let same_state = match stk {
            0 => c.state == LongTermCredentialState::FirstRequest,
            1 => c.state == LongTermCredentialState::Retry(RetryCause::Unauthenticated),
            2 => c.state == LongTermCredentialState::Retry(RetryCause::StaleNonce),
            _ => c.state == LongTermCredentialState::SubsequentRequest,
        };
        assert!(same_state, "C17: mechanism state unchanged by a rejected message");
    }
    kani::cover!(true);
    std::mem::forget(m);
    std::mem::forget(c);
}

fn c08_recv<const CLASS: u8, const CODE: u16, const SHAPE: u32, const HAD: u8>() {
    c08_recv_x::<CLASS, CODE, SHAPE, HAD, 9, 2>();
}

macro_rules! lt_inst {
    ($($name:ident = $e:expr;)*) => {$(
        #[kani::proof]
        #[kani::unwind(10)]
        #[kani::stub(alloc::fmt::format, nofmt)]
        fn $name() { $e; }
    )*};
}
lt_inst! {
    c08_prepare_first_app0 = c08_prepare::<0, false, false, 0, 0>();
    c08_prepare_first_app1 = c08_prepare::<0, true, true, 1, 0>();
    c08_prepare_retry401_h0a0 = c08_prepare::<1, false, false, 0, 0>();
    c08_prepare_retry401_h1a1 = c08_prepare::<1, true, true, 0, 0>();
    c08_prepare_retry401_h0a1_app1 = c08_prepare::<1, false, true, 1, 0>();
    c08_prepare_retry438_h0a0 = c08_prepare::<2, false, false, 0, 0>();
    c08_prepare_retry438_h1a1 = c08_prepare::<2, true, true, 0, 0>();
    c08_prepare_retry438_h1a0_app1 = c08_prepare::<2, true, false, 1, 0>();
    c08_prepare_subsequent_h0a0 = c08_prepare::<3, false, false, 0, 0>();
    c08_prepare_subsequent_h1a1 = c08_prepare::<3, true, true, 0, 0>();
    c08_prepare_subsequent_h0a1_app1 = c08_prepare::<3, false, true, 1, 0>();
    c08_prepare_subsequent_h1a0 = c08_prepare::<3, true, false, 0, 0>();
    c08_kf_retry401_no_integrity = c08_prepare::<1, false, false, 0, 1>();
    c08_kf_retry438_no_password_algorithms = c08_prepare::<2, false, true, 0, 2>();
    // 401 challenges
    // 438 stale nonce
    // other errors, no code
    // success responses
    // quick-tier instances: mechanism state and transport concrete (SubsequentRequest / FirstRequest, unreliable)
    // indications and requests are refused
}

// ---- cost experiments (not registered) ------------------------------------------------------
fn exp_adds(n: usize, removes: bool) {
    let mut app = crate::message::verif_message::attributes_with_capacity(8);
    if removes {
        remove_auth_and_integrity_attrs(&mut app);
    }
    let mut i = 0;
    while i < n {
        app.add(SA::Other(Other { code: 0x8000 + i as u16, val: kani::any() }));
        i += 1;
    }
    let out: Vec<StunAttribute> = app.into();
    assert!(out.len() == n);
    std::mem::forget(out);
}
fn exp_prepare_concrete() {
    let mut c = LongTermCredentialClient::new(UserName(1), "p", false);
    let p = P { realm: 2, nonce: Nonce { tok: 5, cookie: false, flags_ok: false, anonymity: false, pwd_algs: false }, algs: None, alg: None, key: 25, user_hash: None, sha: false };
    install(&mut c, &p);
    c.state = LongTermCredentialState::SubsequentRequest;
    let mut app = crate::message::verif_message::attributes_with_capacity(8);
    app.add(SA::Other(Other { code: 0x8022, val: kani::any() }));
    let r = c.prepare_request(&mut app);
    assert!(r.is_ok());
    let out: Vec<StunAttribute> = app.into();
    assert!(out.len() == 5);
    std::mem::forget(out);
    std::mem::forget(c);
}
lt_inst! {
    exp_adds_3 = exp_adds(3, false);
    exp_adds_5 = exp_adds(5, false);
    exp_adds_5_removes = exp_adds(5, true);
    exp_prepare_concrete_state = exp_prepare_concrete();
}

// concrete instances with a tight per-instance unwind bound (number of attributes + 2): the attribute
// loops of process_error_response / the protected iterator are entered on many paths and each entry is
// unwound to the bound
macro_rules! lt_inst_u {
    ($($name:ident = $u:expr, $e:expr;)*) => {$(
        #[kani::proof]
        #[kani::unwind($u)]
        #[kani::stub(alloc::fmt::format, nofmt)]
        fn $name() { $e; }
    )*};
}
lt_inst_u! {
    c08_recvq_401_first_challenge = 6, c08_recv_x::<1, 401, { F_REALM | F_NONCE | F_ALGS }, 0, 0, 0>();
    c08_recvq_401_second_challenge = 6, c08_recv_x::<1, 401, { F_REALM | F_NONCE | F_ALGS }, 1, 3, 0>();
    c08_recvq_438_nonce_mi = 5, c08_recv_x::<1, 438, { F_NONCE | F_MI }, 1, 3, 0>();
    c08_recvq_success_mi = 5, c08_recv_x::<0, 0, { F_MI }, 1, 3, 1>();
    c08_recvq_indication = 5, c08_recv_x::<2, 0, { F_MI }, 1, 3, 0>();
}
lt_inst_u! {
    c08_recv_401_realm_nonce = 5, c08_recv::<1, 401, { F_REALM | F_NONCE }, 0>();
    c08_recv_401_realm_nonce_algs = 6, c08_recv::<1, 401, { F_REALM | F_NONCE | F_ALGS }, 0>();
    c08_recv_401_second_challenge = 6, c08_recv::<1, 401, { F_REALM | F_NONCE | F_ALGS }, 1>();
    c08_recv_401_second_challenge_no_algs = 5, c08_recv::<1, 401, { F_REALM | F_NONCE }, 2>();
    c08_recv_401_with_sha = 7, c08_recv::<1, 401, { F_REALM | F_NONCE | F_ALGS | F_SHA }, 2>();
    c08_recv_401_with_mi = 6, c08_recv::<1, 401, { F_REALM | F_NONCE | F_MI }, 1>();
    c08_recv_401_no_realm = 5, c08_recv::<1, 401, { F_NONCE }, 1>();
    c08_recv_401_no_nonce = 5, c08_recv::<1, 401, { F_REALM | F_ALGS }, 2>();
    c08_recv_438_nonce = 5, c08_recv::<1, 438, { F_NONCE }, 1>();
    c08_recv_438_nonce_mi = 5, c08_recv::<1, 438, { F_NONCE | F_MI }, 1>();
    c08_recv_438_nonce_sha = 5, c08_recv::<1, 438, { F_NONCE | F_SHA }, 2>();
    c08_recv_438_no_nonce = 5, c08_recv::<1, 438, { F_MI }, 1>();
    c08_recv_438_no_params = 5, c08_recv::<1, 438, { F_NONCE }, 0>();
    c08_recv_420_mi = 5, c08_recv::<1, 420, { F_MI }, 1>();
    c08_recv_420_sha = 5, c08_recv::<1, 420, { F_SHA }, 2>();
    c08_recv_420_plain = 5, c08_recv::<1, 420, 0, 1>();
    c08_recv_error_no_code = 5, c08_recv::<1, 0, { F_REALM | F_NONCE }, 1>();
    c08_recv_success_mi = 5, c08_recv::<0, 0, { F_MI }, 1>();
    c08_recv_success_sha = 5, c08_recv::<0, 0, { F_SHA }, 2>();
    c08_recv_success_wrong_kind = 5, c08_recv::<0, 0, { F_MI }, 2>();
    c08_recv_success_both = 5, c08_recv::<0, 0, { F_MI | F_SHA }, 1>();
    c08_recv_success_plain = 5, c08_recv::<0, 0, 0, 1>();
    c08_recv_success_no_params = 5, c08_recv::<0, 0, { F_MI }, 0>();
    c08_recv_indication = 5, c08_recv::<2, 0, { F_MI }, 1>();
    c08_recv_request = 5, c08_recv::<3, 0, { F_SHA }, 2>();
}
