// Message level: C01 (round trip), C02 (header/padding layout, ignorable bits), C14 (buffer
// discipline) through the real MessageEncoder::encode / MessageDecoder::decode.
// The decoder registry (lazy_static HashMap) is replaced by `registry_from_source`, an if-chain
// generated at check time from the register::<X>() lines of the working tree.
#![allow(unused_imports, dead_code)]
use crate::attributes::stun::*;
use crate::support_common::*;
use crate::verif_registry::registry_from_source;
use crate::{
    MessageClass, MessageDecoderBuilder, MessageEncoderBuilder, MessageMethod, MessageType, StunAttribute,
    StunMessage, StunMessageBuilder, TransactionId,
};
use std::net::{IpAddr, Ipv4Addr, SocketAddr};

pub const MCAP: usize = 48;

fn any_class() -> (MessageClass, u16) {
    let c: u8 = kani::any();
    kani::assume(c < 4);
    let cls = match c {
        0 => MessageClass::Request,
        1 => MessageClass::Indication,
        2 => MessageClass::SuccessResponse,
        _ => MessageClass::ErrorResponse,
    };
    (cls, c as u16)
}

/// RFC 8489 §5, figure 3: M11..M7 C1 M6..M4 C0 M3..M0 in the low 14 bits, two top bits zero.
fn type_bits(m: u16, c: u16) -> u16 {
    ((m & 0x0f80) << 2) | ((c & 2) << 7) | ((m & 0x0070) << 1) | ((c & 1) << 4) | (m & 0x000f)
}

// ---------------------------------------------------------------------------------------------
// C02: all 16384 (method, class) pairs, both directions
// ---------------------------------------------------------------------------------------------
#[kani::proof]
#[kani::unwind(4)]
#[kani::stub(alloc::fmt::format, nofmt)]
fn c02_message_type_bits() {
    let m: u16 = kani::any();
    kani::assume(m <= 0x0fff);
    let (cls, c) = any_class();
    let mt = MessageType::new(MessageMethod(m), cls);
    let v = mt.as_u16();
    assert!(v == type_bits(m, c), "C02: 14-bit interleaving of method and class");
    assert!(v & 0xc000 == 0);
    let top: u16 = kani::any();
    let back = MessageType::from(v | (top << 14));
    assert!(back.method().as_u16() == m && back.class() == cls, "C02: type decodes back; top bits ignored");
}

// ---------------------------------------------------------------------------------------------
// one-attribute messages: the attribute is built by `$mk`, `$vlen` is its value length, `$same`
// compares the decoded attribute with the original
// ---------------------------------------------------------------------------------------------
struct Built {
    msg: StunMessage,
    m: u16,
    c: u16,
    tid: [u8; 12],
}

fn build_one(attr: StunAttribute) -> Built {
    let m: u16 = kani::any();
    kani::assume(m <= 0x0fff);
    let (cls, c) = any_class();
    let tid: [u8; 12] = kani::any();
    let msg = StunMessageBuilder::new(MessageMethod(m), cls)
        .with_transaction_id(TransactionId::from(tid))
        .with_attribute(attr)
        .build();
    Built { msg, m, c, tid }
}

fn check_header(buf: &[u8; MCAP], b: &Built, attr_bytes: usize) {
    let t = type_bits(b.m, b.c);
    assert!(buf[0] == (t >> 8) as u8 && buf[1] == t as u8, "C02: message type");
    assert!(buf[2] == (attr_bytes >> 8) as u8 && buf[3] == attr_bytes as u8, "C02: length excludes the 20-byte header");
    assert!(buf[4] == 0x21 && buf[5] == 0x12 && buf[6] == 0xa4 && buf[7] == 0x42, "C02: magic cookie");
    let j: usize = kani::any();
    kani::assume(j < 12);
    assert!(buf[8 + j] == b.tid[j], "C02: transaction id");
}

/// C14 + C02: encode into `buf[..blen]` for every blen <= MCAP
fn encode_discipline(b: &Built, code: u16, vlen: usize) {
    let pad = (4 - (vlen & 3)) & 3;
    let needed = 20 + 4 + vlen + pad;
    let fill: u8 = kani::any();
    let mut buf = [fill; MCAP];
    let blen: usize = kani::any();
    kani::assume(blen <= MCAP);
    let enc = MessageEncoderBuilder::default().build();
    let r = enc.encode(&mut buf[..blen], &b.msg);
    match &r {
        Ok(n) => {
            assert!(blen >= needed, "C14: a shorter buffer is an error");
            assert!(*n == needed, "C14/C01: returned size = 20 + attributes, multiple of 4");
            check_header(&buf, b, needed - 20);
            assert!(buf[20] == (code >> 8) as u8 && buf[21] == code as u8, "C02: attribute type code");
            assert!(buf[22] == (vlen >> 8) as u8 && buf[23] == vlen as u8, "C02: attribute length without padding");
            if pad > 0 {
                let j: usize = kani::any();
                kani::assume(j < pad);
                assert!(buf[24 + vlen + j] == 0, "C02: padding is zero");
            }
            let j: usize = kani::any();
            kani::assume(j < MCAP);
            if j >= needed {
                assert!(buf[j] == fill, "C14: bytes beyond the returned size are untouched");
            }
        }
        Err(_) => assert!(blen < needed, "C14: a buffer that is long enough is accepted"),
    }
    kani::cover!(r.is_ok() && blen == needed);
    kani::cover!(r.is_err() && blen + 1 == needed);
    std::mem::forget(r);
}

/// C01 + C02: encode into a large buffer, then decode exactly the produced bytes; then decode
/// again with the padding bytes replaced by arbitrary values
fn round_trip<F: Fn(&StunAttribute)>(b: &Built, vlen: usize, same: F) {
    let pad = (4 - (vlen & 3)) & 3;
    let needed = 20 + 4 + vlen + pad;
    let mut buf = [0xa5u8; MCAP];
    let enc = MessageEncoderBuilder::default().build();
    let n = match enc.encode(&mut buf, &b.msg) {
        Ok(n) => n,
        Err(e) => {
            std::mem::forget(e);
            assert!(false, "C01: encodes into a large enough buffer");
            return;
        }
    };
    assert!(n == needed);
    if pad > 0 {
        let j: usize = kani::any();
        kani::assume(j < pad);
        buf[24 + vlen + j] = kani::any(); // receivers must ignore padding (RFC 8489 §14)
    }
    let dec = MessageDecoderBuilder::default().build();
    match dec.decode(&buf[..n]) {
        Ok((m2, used)) => {
            assert!(used == n, "C01: decoder consumes what the encoder produced");
            assert!(m2.method().as_u16() == b.m && m2.class() == b.msg.class(), "C01: method/class");
            let j: usize = kani::any();
            kani::assume(j < 12);
            assert!(m2.transaction_id().as_bytes()[j] == b.tid[j], "C01: transaction id");
            assert!(m2.attributes().len() == 1, "C01: same attributes");
            same(&m2.attributes()[0]);
            std::mem::forget(m2);
        }
        Err(e) => {
            std::mem::forget(e);
            assert!(false, "C01: the encoder's output decodes");
        }
    }
}

macro_rules! one_attr {
    ($disc:ident, $rt:ident, $code:expr, $vlen:expr, $mk:expr, $same:expr) => {
        #[kani::proof]
        #[kani::unwind(14)]
        #[kani::stub(alloc::fmt::format, nofmt)]
        #[kani::stub(<crate::types::TransactionId as std::default::Default>::default, tid_any)]
        fn $disc() {
            let (attr, _orig) = $mk;
            let b = build_one(attr);
            encode_discipline(&b, $code, $vlen);
            std::mem::forget(b);
        }
        #[kani::proof]
        #[kani::unwind(14)]
        #[kani::stub(alloc::fmt::format, nofmt)]
        #[kani::stub(<crate::types::TransactionId as std::default::Default>::default, tid_any)]
        #[kani::stub(crate::registry::get_handler, registry_from_source)]
        fn $rt() {
            let (attr, orig) = $mk;
            let b = build_one(attr);
            round_trip(&b, $vlen, |a: &StunAttribute| ($same)(a, &orig));
            std::mem::forget(b);
        }
    };
}

#[cfg(feature = "turn")]
one_attr!(c14_msg_even_port, c01_msg_even_port, 0x0018, 1,
    { let r: bool = kani::any(); (StunAttribute::from(crate::attributes::turn::EvenPort::new(r)), r) },
    |a: &StunAttribute, r: &bool| match a { StunAttribute::EvenPort(x) => assert!(x.reserve() == *r), _ => assert!(false, "C01: same kind") });

one_attr!(c14_msg_unknown_attributes, c01_msg_unknown_attributes, 0x000a, 2,
    { let t: u16 = kani::any(); let mut u = UnknownAttributes::default(); u.add(t); (StunAttribute::from(u), t) },
    |a: &StunAttribute, t: &u16| match a { StunAttribute::UnknownAttributes(x) => assert!(x.attributes().len() == 1 && x.attributes()[0] == *t), _ => assert!(false, "C01: same kind") });

#[cfg(feature = "turn")]
one_attr!(c14_msg_data3, c01_msg_data3, 0x0013, 3,
    { let d: [u8; 3] = kani::any(); (StunAttribute::from(crate::attributes::turn::Data::new(&d[..])), d) },
    |a: &StunAttribute, d: &[u8; 3]| match a { StunAttribute::Data(x) => assert!(x.as_bytes().len() == 3 && x.as_bytes()[0] == d[0] && x.as_bytes()[1] == d[1] && x.as_bytes()[2] == d[2]), _ => assert!(false, "C01: same kind") });

#[cfg(feature = "turn")]
one_attr!(c14_msg_channel_number, c01_msg_channel_number, 0x000c, 4,
    { let n: u16 = kani::any(); (StunAttribute::from(crate::attributes::turn::ChannelNumber::new(n)), n) },
    |a: &StunAttribute, n: &u16| match a { StunAttribute::ChannelNumber(x) => assert!(x.number() == *n), _ => assert!(false, "C01: same kind") });

one_attr!(c14_msg_xor_mapped_v4, c01_msg_xor_mapped_v4, 0x0020, 8,
    { let ip: [u8; 4] = kani::any(); let port: u16 = kani::any(); let sa = SocketAddr::new(IpAddr::V4(Ipv4Addr::from(ip)), port); (StunAttribute::from(XorMappedAddress::from(sa)), sa) },
    |a: &StunAttribute, sa: &SocketAddr| match a { StunAttribute::XorMappedAddress(x) => assert!(x.socket_address() == sa), _ => assert!(false, "C01: same kind") });

#[cfg(feature = "turn")]
one_attr!(c14_msg_data5, c01_msg_data5, 0x0013, 5,
    { let d: [u8; 5] = kani::any(); (StunAttribute::from(crate::attributes::turn::Data::new(&d[..])), d) },
    |a: &StunAttribute, d: &[u8; 5]| match a { StunAttribute::Data(x) => { let j: usize = kani::any(); kani::assume(j < 5); assert!(x.as_bytes().len() == 5 && x.as_bytes()[j] == d[j]) }, _ => assert!(false, "C01: same kind") });

// empty message: header only
#[kani::proof]
#[kani::unwind(14)]
#[kani::stub(alloc::fmt::format, nofmt)]
#[kani::stub(<crate::types::TransactionId as std::default::Default>::default, tid_any)]
#[kani::stub(crate::registry::get_handler, registry_from_source)]
fn c01_msg_empty() {
    let m: u16 = kani::any();
    kani::assume(m <= 0x0fff);
    let (cls, c) = any_class();
    let tid: [u8; 12] = kani::any();
    let msg = StunMessageBuilder::new(MessageMethod(m), cls).with_transaction_id(TransactionId::from(tid)).build();
    let b = Built { msg, m, c, tid };
    let fill: u8 = kani::any();
    let mut buf = [fill; MCAP];
    let blen: usize = kani::any();
    kani::assume(blen <= MCAP);
    let r = MessageEncoderBuilder::default().build().encode(&mut buf[..blen], &b.msg);
    match &r {
        Ok(n) => {
            assert!(*n == 20 && blen >= 20);
            check_header(&buf, &b, 0);
            let j: usize = kani::any();
            kani::assume(j < MCAP);
            if j >= 20 {
                assert!(buf[j] == fill);
            }
            match MessageDecoderBuilder::default().build().decode(&buf[..20]) {
                Ok((m2, used)) => {
                    assert!(used == 20 && m2.method().as_u16() == m && m2.class() == cls && m2.attributes().is_empty());
                    std::mem::forget(m2);
                }
                Err(e) => {
                    std::mem::forget(e);
                    assert!(false);
                }
            }
        }
        Err(_) => assert!(blen < 20),
    }
    std::mem::forget(r);
    std::mem::forget(b);
}
