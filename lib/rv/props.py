"""Property table: which solver queries decide which property (DESIGN §3)."""
from .driver import Harness as H

NOFMT = "alloc::fmt::format -> nofmt (error texts outside the claim)"

PROPS = {}
META = {}


def prop(pid, harnesses, outside="", assumptions=()):
    PROPS[pid] = harnesses
    META[pid] = {"outside": outside, "assumptions": list(assumptions)}


CTX = "context::verif_context::"

prop("C09", [
    H("stunrs", CTX + "c09_type_codes", timeout=120, mem_gb=2, covers=0,
      bounds="constants", funcs=["MessageIntegrity::get_type", "MessageIntegritySha256::get_type", "Fingerprint::get_type"],
      sample="type codes 0x0008 / 0x001C / 0x8028"),
    H("stunrs", CTX + "c09_rule_seq8", timeout=300, mem_gb=4, covers=2,
      bounds="all sequences of <= 8 attribute type codes, each an arbitrary u16 (65536^8 sequences incl. all 87,380 kind sequences)",
      funcs=["context::ignore_attribute", "context::AttributeFilter"],
      sample="types=[0x0006,0x0008,0x001C,0x8028,0x8028,0x8022,0x0008,0x001C] -> admitted 1,1,1,1,0,0,0,0"),
    H("stunrs", CTX + "c09_rule_seq12", tier="thorough", timeout=900, mem_gb=6, covers=2,
      bounds="all sequences of <= 12 attribute type codes, each an arbitrary u16",
      funcs=["context::ignore_attribute", "context::AttributeFilter"]),
], outside="sequences longer than 12 attributes")

# ---------------------------------------------------------------------------------------------
# MANIFEST texts
# ---------------------------------------------------------------------------------------------
DESCR = {
    "C09": {
        "level": "Bounded model checking of the real ordering filter (context::ignore_attribute) against the rule as stated in the property, for every sequence of <= 8 (thorough: 12) arbitrary 16-bit attribute type codes; within that bound the SAT verdict covers all sequences, beyond it nothing is claimed.",
        "note": "Trusted: Kani/CBMC/CaDiCaL, the reference rule written in the harness from RFC 8489 with literal IANA type numbers.",
    },
}

_PENDING = "check not built yet in this round; see DESIGN.md §3 for the plan"
NOT_APPLICABLE = {p: _PENDING for p in ["C%02d" % i for i in range(1, 20)]}

VAL = "verif_values::"
NONCE = "attributes::stun::nonce::verif_nonce::"
QS_STRUCT = "quoted-string grammar not run: Nonce built directly from structurally assembled text on which trimming is the identity (over-approximation: any such text may be a nonce)"
QS = "quoted_string_parser::QuotedStringParser::validate -> qs_any (arbitrary verdict: over-approximates the pest grammar)"
prop("C19", [
    H("stunrs", VAL + "c19_message_types_total", timeout=300, mem_gb=3, covers=0, stubs=[NOFMT],
      bounds="all u16 / u8 arguments", funcs=["MessageType::from<u16>", "MessageType::as_u16", "MessageMethod::try_from", "MessageClass::try_from", "MessageType::encode", "AttributeType::*", "AlgorithmId::from", "AddressFamily::try_from"]),
    H("stunrs", VAL + "c19_error_code_total", timeout=300, mem_gb=3, covers=1, stubs=[NOFMT],
      bounds="all u16 error codes, fixed 3-byte reason", funcs=["types::ErrorCode::new/class/number/reason"]),
    H("stunrs", VAL + "c19_password_algorithms_clone_mutate", timeout=300, mem_gb=4, covers=2, stubs=[NOFMT],
      bounds="0 or 1 element, clone, one add on either copy, arbitrary algorithm ids",
      funcs=["PasswordAlgorithms::add/clone/password_algorithms"]),
    H("stunrs", VAL + "c19_unknown_attributes_clone_mutate", timeout=300, mem_gb=4, covers=1, stubs=[NOFMT],
      bounds="1 element, clone, one add on either copy, arbitrary u16 values",
      funcs=["UnknownAttributes::add/clone/attributes"]),
] + [
    H("stunrs", NONCE + "c19_nonce_cookie_k%d_w%d" % (k, w), timeout=600, mem_gb=8, covers=None, stubs=[NOFMT, QS_STRUCT], playback=False,
      tier="quick" if (k, w) in ((2, 2), (3, 2), (4, 2), (3, 3)) else "thorough",
      bounds="nonce = 'obMatJos2' + %d printable ASCII chars + one %d-byte UTF-8 char (all code points of that width) + 'xyz'" % (k, w),
      funcs=["Nonce::new", "Nonce::is_nonce_cookie", "Nonce::security_features", "strings::formatted_quoted_string_from"])
    for (k, w) in ((0, 2), (1, 2), (2, 2), (3, 2), (4, 2), (1, 3), (2, 3), (3, 3))
], outside="strings longer than 17 bytes; PRECIS on non-ASCII input; public functions not listed in functions_encoded")
DESCR["C19"] = {
    "level": "Bounded model checking of the value types' public constructors/accessors/conversions over their whole integer domains, of clone-then-mutate sequences on the Arc-backed types, and of the nonce-cookie accessors on structurally assembled multi-byte strings; absence of any reachable panic/overflow/slice failure is what CBMC checks.",
    "note": "Trusted: Kani/CBMC; qs_any over-approximates the quoted-string grammar (counterexamples through it are model-level and are confirmed by a native replay before a fix is made); error texts stubbed (nofmt).",
}
