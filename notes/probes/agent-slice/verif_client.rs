use super::*;
fn nofmt(_a: std::fmt::Arguments<'_>) -> String { String::new() }
#[repr(C)] struct RawTs { sec: i64, nsec: u32, pad: u32 }
fn instant_at(sec: i64, nsec: u32) -> Instant { unsafe { std::mem::transmute::<RawTs, Instant>(RawTs { sec, nsec, pad: 0 }) } }
fn any_offset(max_secs: u64) -> Duration { let s: u64 = kani::any(); let n: u32 = kani::any(); kani::assume(s <= max_secs); kani::assume(n < 1_000_000_000); Duration::new(s, n) }

fn finals_for(ev: &Vec<StunClientEvent>, tid: &TransactionId) -> (usize, usize) {
    // (#final outcomes for tid, #any event mentioning tid)
    let mut f = 0; let mut any = 0; let mut i = 0;
    while i < ev.len() {
        match &ev[i] {
            StunClientEvent::TransactionFailed((t, _)) if t == tid => { f += 1; any += 1; }
            StunClientEvent::Retry(t) if t == tid => { f += 1; any += 1; }
            StunClientEvent::StunMessageReceived(m) if m.transaction_id() == tid && m.class() != stun_rs::MessageClass::Indication => { f += 1; any += 1; }
            StunClientEvent::RestransmissionTimeOut((t, _)) if t == tid => { any += 1; }
            _ => {}
        }
        i += 1;
    }
    (f, any)
}

#[kani::proof]
#[kani::unwind(4)]
#[kani::stub(alloc::fmt::format, nofmt)]
fn probe_slice_one_final_outcome() {
    let mut client = match StunClienteBuilder::new(TransportReliability::Reliable(Duration::from_secs(5))).with_max_transactions(1).build() { Ok(c) => c, Err(_) => return };
    let t0 = instant_at(1000, 0);
    let tid = match client.send_request(stun_rs::MessageMethod(1), StunAttributes::default(), vec![0u8; 20], t0) { Ok(t) => t, Err(_) => return };
    let ev = client.events(); std::mem::forget(ev);
    let mut finals = 0usize;
    let mut now = Duration::ZERO;
    let mut step = 0;
    while step < 2 {
        now = now + any_offset(6);
        let t = t0 + now;
        if kani::any() { client.on_timeout(t); } else { let r = client.on_buffer_recv(&[0u8; 20], t); std::mem::forget(r); }
        let ev = client.events();
        let (f, any) = finals_for(&ev, &tid);
        if finals >= 1 { assert!(any == 0); }
        finals += f;
        assert!(finals <= 1);
        std::mem::forget(ev);
        step += 1;
    }
    // capacity: slot is free iff a final outcome was reported
    let r = client.send_request(stun_rs::MessageMethod(1), StunAttributes::default(), vec![0u8; 20], t0 + now);
    if finals == 0 { assert!(matches!(r, Err(StunAgentError::MaxOutstandingRequestsReached))); }
    else { assert!(!matches!(r, Err(StunAgentError::MaxOutstandingRequestsReached))); }
    std::mem::forget(r);
    std::mem::forget(client);
}

#[kani::proof]
#[kani::unwind(4)]
#[kani::stub(alloc::fmt::format, nofmt)]
fn probe_slice_timeout_one_step() {
    let mut client = match StunClienteBuilder::new(TransportReliability::Reliable(Duration::from_secs(5))).with_max_transactions(1).build() { Ok(c) => c, Err(_) => return };
    let t0 = instant_at(1000, 0);
    let tid = match client.send_request(stun_rs::MessageMethod(1), StunAttributes::default(), vec![0u8; 20], t0) { Ok(t) => t, Err(_) => return };
    let ev = client.events(); std::mem::forget(ev);
    let d = any_offset(8);
    client.on_timeout(t0 + d);
    let ev = client.events();
    let (f, _any) = finals_for(&ev, &tid);
    if d >= Duration::from_secs(5) { assert!(f == 1); assert!(client.transactions.len() == 0); } else { assert!(f == 0); assert!(client.transactions.len() == 1); }
    std::mem::forget(ev);
    std::mem::forget(client);
}

#[kani::proof]
#[kani::unwind(3)]
#[kani::stub(alloc::fmt::format, nofmt)]
fn probe_slice_recv_one_step() {
    let mut client = match StunClienteBuilder::new(TransportReliability::Reliable(Duration::from_secs(5))).with_max_transactions(1).build() { Ok(c) => c, Err(_) => return };
    let t0 = instant_at(1000, 0);
    let tid = match client.send_request(stun_rs::MessageMethod(1), StunAttributes::default(), vec![0u8; 20], t0) { Ok(t) => t, Err(_) => return };
    let ev = client.events(); std::mem::forget(ev);
    let d = any_offset(8);
    let r = client.on_buffer_recv(&[0u8; 20], t0 + d);
    let ev = client.events();
    let (f, any) = finals_for(&ev, &tid);
    match &r {
        Ok(()) => { assert!(ev.len() == 1); if f == 1 { assert!(client.transactions.len() == 0); } }
        Err(_) => { assert!(ev.len() == 0 && any == 0); assert!(client.transactions.len() == 1); }
    }
    std::mem::forget(r); std::mem::forget(ev); std::mem::forget(client);
}

// ---- contract models used as stubs (ghost state: up to 2 entries), no integer conversions ----
use crate::timeout::{RtoManager, StunMessageTimeout};
#[derive(Clone, Copy)]
struct GEntry { used: bool, instant: Option<Instant>, timeout: Duration, id: TransactionId }
static mut G: [GEntry; 2] = [GEntry { used: false, instant: None, timeout: Duration::ZERO, id: TransactionId(0) }; 2];
fn g_exp(i: usize) -> Instant { unsafe { match G[i].instant { Some(t) => t + G[i].timeout, None => { kani::assume(false); instant_at(0,0) } } } }
fn g_add(_s: &mut StunMessageTimeout, instant: Instant, timeout: Duration, id: TransactionId) {
    unsafe { let e = GEntry { used: true, instant: Some(instant), timeout, id };
        if !G[0].used { G[0] = e; } else if !G[1].used { G[1] = e; } else { kani::assume(false); } }
}
fn g_remove(_s: &mut StunMessageTimeout, id: &TransactionId) {
    unsafe { if G[0].used && G[0].id == *id { G[0].used = false; } if G[1].used && G[1].id == *id { G[1].used = false; } }
}
fn g_min() -> Option<usize> {
    unsafe { match (G[0].used, G[1].used) {
        (false, false) => None, (true, false) => Some(0), (false, true) => Some(1),
        (true, true) => if g_exp(0) <= g_exp(1) { Some(0) } else { Some(1) } } }
}
fn g_next_timeout(_s: &mut StunMessageTimeout, instant: Instant) -> Option<(TransactionId, Duration)> {
    unsafe { match g_min() { None => None, Some(i) => { let exp = g_exp(i);
        Some((G[i].id, if exp > instant { exp - instant } else { Duration::ZERO })) } } }
}
fn g_check(_s: &mut StunMessageTimeout, instant: Instant) -> Vec<TransactionId> {
    let mut v = Vec::new();
    unsafe { let mut k = 0; while k < 2 { if let Some(i) = g_min() { if g_exp(i) <= instant { v.push(G[i].id); G[i].used = false; } } k += 1; } }
    v
}
fn g_next_rto(_s: &mut RtoManager, _instant: Instant) -> Option<Duration> {
    if kani::any() { let s: u8 = kani::any(); let n: u32 = kani::any(); kani::assume(n < 1_000_000_000 && (s > 0 || n > 0)); Some(Duration::new(s as u64, n)) } else { None }
}
#[kani::proof]
#[kani::unwind(4)]
#[kani::stub(alloc::fmt::format, nofmt)]
#[kani::stub(StunMessageTimeout::add, g_add)]
#[kani::stub(StunMessageTimeout::remove, g_remove)]
#[kani::stub(StunMessageTimeout::next_timeout, g_next_timeout)]
#[kani::stub(StunMessageTimeout::check, g_check)]
#[kani::stub(RtoManager::next_rto, g_next_rto)]
fn probe_slice_glue_two_steps() {
    let mut client = match StunClienteBuilder::new(TransportReliability::Unreliable(RttConfig::default())).with_max_transactions(1).build() { Ok(c) => c, Err(_) => return };
    let t0 = instant_at(1000, 0);
    let tid = match client.send_request(stun_rs::MessageMethod(1), StunAttributes::default(), vec![0u8; 20], t0) { Ok(t) => t, Err(_) => return };
    let ev = client.events(); std::mem::forget(ev);
    let mut finals = 0usize;
    let mut now = Duration::ZERO;
    let mut step = 0;
    while step < 2 {
        now = now + any_offset(6);
        let t = t0 + now;
        if kani::any() { client.on_timeout(t); } else { let r = client.on_buffer_recv(&[0u8; 20], t); std::mem::forget(r); }
        let ev = client.events();
        let (f, any) = finals_for(&ev, &tid);
        if finals >= 1 { assert!(any == 0); }
        finals += f;
        assert!(finals <= 1);
        std::mem::forget(ev);
        step += 1;
    }
    let r = client.send_request(stun_rs::MessageMethod(1), StunAttributes::default(), vec![0u8; 20], t0 + now);
    if finals == 0 { assert!(matches!(r, Err(StunAgentError::MaxOutstandingRequestsReached))); }
    else { assert!(!matches!(r, Err(StunAgentError::MaxOutstandingRequestsReached))); }
    std::mem::forget(r);
    std::mem::forget(client);
}
#[kani::proof]
#[kani::unwind(4)]
#[kani::stub(alloc::fmt::format, nofmt)]
#[kani::stub(StunMessageTimeout::add, g_add)]
#[kani::stub(StunMessageTimeout::remove, g_remove)]
#[kani::stub(StunMessageTimeout::next_timeout, g_next_timeout)]
#[kani::stub(StunMessageTimeout::check, g_check)]
#[kani::stub(RtoManager::next_rto, g_next_rto)]
fn probe_glue_timeout_one_step_reliable() {
    let mut client = match StunClienteBuilder::new(TransportReliability::Reliable(Duration::from_secs(5))).with_max_transactions(1).build() { Ok(c) => c, Err(_) => return };
    let t0 = instant_at(1000, 0);
    let tid = match client.send_request(stun_rs::MessageMethod(1), StunAttributes::default(), vec![0u8; 20], t0) { Ok(t) => t, Err(_) => return };
    let ev = client.events(); std::mem::forget(ev);
    let d = any_offset(8);
    client.on_timeout(t0 + d);
    let ev = client.events();
    let (f, _any) = finals_for(&ev, &tid);
    // glue contract: a final failure is reported iff the transaction left the table
    assert!((f == 1) == (client.transactions.len() == 0));
    std::mem::forget(ev);
    std::mem::forget(client);
}
#[kani::proof]
#[kani::unwind(4)]
#[kani::stub(alloc::fmt::format, nofmt)]
#[kani::stub(StunMessageTimeout::add, g_add)]
#[kani::stub(StunMessageTimeout::remove, g_remove)]
#[kani::stub(StunMessageTimeout::next_timeout, g_next_timeout)]
#[kani::stub(StunMessageTimeout::check, g_check)]
#[kani::stub(RtoManager::next_rto, g_next_rto)]
fn probe_glue_two_steps_reliable() {
    let mut client = match StunClienteBuilder::new(TransportReliability::Reliable(Duration::from_secs(5))).with_max_transactions(1).build() { Ok(c) => c, Err(_) => return };
    let t0 = instant_at(1000, 0);
    let tid = match client.send_request(stun_rs::MessageMethod(1), StunAttributes::default(), vec![0u8; 20], t0) { Ok(t) => t, Err(_) => return };
    let ev = client.events(); std::mem::forget(ev);
    let mut finals = 0usize;
    let mut now = Duration::ZERO;
    let mut step = 0;
    while step < 2 {
        now = now + any_offset(6);
        let t = t0 + now;
        if kani::any() { client.on_timeout(t); } else { let r = client.on_buffer_recv(&[0u8; 20], t); std::mem::forget(r); }
        let ev = client.events();
        let (f, any) = finals_for(&ev, &tid);
        if finals >= 1 { assert!(any == 0); }
        finals += f;
        assert!(finals <= 1);
        std::mem::forget(ev);
        step += 1;
    }
    std::mem::forget(client);
}
#[kani::proof]
#[kani::unwind(4)]
#[kani::stub(alloc::fmt::format, nofmt)]
#[kani::stub(StunMessageTimeout::add, g_add)]
#[kani::stub(StunMessageTimeout::remove, g_remove)]
#[kani::stub(StunMessageTimeout::next_timeout, g_next_timeout)]
#[kani::stub(StunMessageTimeout::check, g_check)]
#[kani::stub(RtoManager::next_rto, g_next_rto)]
fn probe_glue_v1() {
    let mut client = match StunClienteBuilder::new(TransportReliability::Reliable(Duration::from_secs(5))).with_max_transactions(1).build() { Ok(c) => c, Err(_) => return };
    let t0 = instant_at(1000, 0);
    let _tid = match client.send_request(stun_rs::MessageMethod(1), StunAttributes::default(), vec![0u8; 20], t0) { Ok(t) => t, Err(_) => return };
    let d = any_offset(8);
    client.on_timeout(t0 + d);
    assert!(client.transactions.len() <= 1);
    std::mem::forget(client);
}
#[kani::proof]
#[kani::unwind(4)]
#[kani::stub(alloc::fmt::format, nofmt)]
#[kani::stub(StunMessageTimeout::add, g_add)]
#[kani::stub(StunMessageTimeout::remove, g_remove)]
#[kani::stub(StunMessageTimeout::next_timeout, g_next_timeout)]
#[kani::stub(StunMessageTimeout::check, g_check)]
#[kani::stub(RtoManager::next_rto, g_next_rto)]
fn probe_glue_v2() {
    let mut client = match StunClienteBuilder::new(TransportReliability::Reliable(Duration::from_secs(5))).with_max_transactions(1).build() { Ok(c) => c, Err(_) => return };
    let t0 = instant_at(1000, 0);
    let d = any_offset(8);
    client.on_timeout(t0 + d);
    assert!(client.transactions.len() == 0);
    std::mem::forget(client);
}
#[kani::proof]
#[kani::unwind(4)]
#[kani::stub(alloc::fmt::format, nofmt)]
#[kani::stub(StunMessageTimeout::add, g_add)]
#[kani::stub(StunMessageTimeout::remove, g_remove)]
#[kani::stub(StunMessageTimeout::next_timeout, g_next_timeout)]
#[kani::stub(StunMessageTimeout::check, g_check)]
#[kani::stub(RtoManager::next_rto, g_next_rto)]
fn probe_glue_v3() {
    let mut client = match StunClienteBuilder::new(TransportReliability::Reliable(Duration::from_secs(5))).with_max_transactions(1).build() { Ok(c) => c, Err(_) => return };
    let t0 = instant_at(1000, 0);
    let r = client.send_request(stun_rs::MessageMethod(1), StunAttributes::default(), vec![0u8; 20], t0);
    assert!(client.transactions.len() <= 1);
    std::mem::forget(r);
    std::mem::forget(client);
}

static mut POP0: bool = false;
fn g_check_flag(_s: &mut StunMessageTimeout, _instant: Instant) -> Vec<TransactionId> {
    // contract over-approximation: returns the queued id iff the harness-chosen concrete flag says so
    unsafe { if POP0 && G[0].used { G[0].used = false; vec![G[0].id] } else { Vec::new() } }
}
#[kani::proof]
#[kani::unwind(4)]
#[kani::stub(alloc::fmt::format, nofmt)]
#[kani::stub(StunMessageTimeout::add, g_add)]
#[kani::stub(StunMessageTimeout::remove, g_remove)]
#[kani::stub(StunMessageTimeout::next_timeout, g_next_timeout)]
#[kani::stub(StunMessageTimeout::check, g_check)]
#[kani::stub(RtoManager::next_rto, g_next_rto)]
fn probe_glue_v6_concrete_time() {
    let mut client = match StunClienteBuilder::new(TransportReliability::Reliable(Duration::from_secs(5))).with_max_transactions(1).build() { Ok(c) => c, Err(_) => return };
    let t0 = instant_at(1000, 0);
    let tid = match client.send_request(stun_rs::MessageMethod(1), StunAttributes::default(), vec![0u8; 20], t0) { Ok(t) => t, Err(_) => return };
    let ev = client.events(); std::mem::forget(ev);
    let d = Duration::from_secs(6);
    client.on_timeout(t0 + d);
    let ev = client.events();
    let (f, _any) = finals_for(&ev, &tid);
    assert!((f == 1) == (client.transactions.len() == 0));
    std::mem::forget(ev);
    std::mem::forget(client);
}
#[kani::proof]
#[kani::unwind(4)]
#[kani::stub(alloc::fmt::format, nofmt)]
#[kani::stub(StunMessageTimeout::add, g_add)]
#[kani::stub(StunMessageTimeout::remove, g_remove)]
#[kani::stub(StunMessageTimeout::next_timeout, g_next_timeout)]
#[kani::stub(StunMessageTimeout::check, g_check_flag)]
#[kani::stub(RtoManager::next_rto, g_next_rto)]
fn probe_glue_v7_flag() {
    let mut client = match StunClienteBuilder::new(TransportReliability::Reliable(Duration::from_secs(5))).with_max_transactions(1).build() { Ok(c) => c, Err(_) => return };
    let t0 = instant_at(1000, 0);
    let tid = match client.send_request(stun_rs::MessageMethod(1), StunAttributes::default(), vec![0u8; 20], t0) { Ok(t) => t, Err(_) => return };
    let ev = client.events(); std::mem::forget(ev);
    unsafe { POP0 = true; } let d = any_offset(8);
    client.on_timeout(t0 + d);
    let ev = client.events();
    let (f, _any) = finals_for(&ev, &tid);
    assert!((f == 1) == (client.transactions.len() == 0));
    std::mem::forget(ev);
    std::mem::forget(client);
}

fn g_next_rto_none(_s: &mut RtoManager, _instant: Instant) -> Option<Duration> { None }
fn g_next_rto_some(_s: &mut RtoManager, _instant: Instant) -> Option<Duration> { Some(Duration::from_millis(500)) }
#[kani::proof]
#[kani::unwind(4)]
#[kani::stub(alloc::fmt::format, nofmt)]
#[kani::stub(StunMessageTimeout::add, g_add)]
#[kani::stub(StunMessageTimeout::remove, g_remove)]
#[kani::stub(StunMessageTimeout::next_timeout, g_next_timeout)]
#[kani::stub(StunMessageTimeout::check, g_check_flag)]
#[kani::stub(RtoManager::next_rto, g_next_rto_none)]
fn probe_glue_v8_none() {
    let mut client = match StunClienteBuilder::new(TransportReliability::Reliable(Duration::from_secs(5))).with_max_transactions(1).build() { Ok(c) => c, Err(_) => return };
    let t0 = instant_at(1000, 0);
    let tid = match client.send_request(stun_rs::MessageMethod(1), StunAttributes::default(), vec![0u8; 20], t0) { Ok(t) => t, Err(_) => return };
    let ev = client.events(); std::mem::forget(ev);
    unsafe { POP0 = true; } let d = Duration::from_secs(6);
    client.on_timeout(t0 + d);
    let ev = client.events();
    let (f, _any) = finals_for(&ev, &tid);
    assert!((f == 1) == (client.transactions.len() == 0));
    std::mem::forget(ev);
    std::mem::forget(client);
}
#[kani::proof]
#[kani::unwind(4)]
#[kani::stub(alloc::fmt::format, nofmt)]
#[kani::stub(StunMessageTimeout::add, g_add)]
#[kani::stub(StunMessageTimeout::remove, g_remove)]
#[kani::stub(StunMessageTimeout::next_timeout, g_next_timeout)]
#[kani::stub(StunMessageTimeout::check, g_check_flag)]
#[kani::stub(RtoManager::next_rto, g_next_rto_some)]
fn probe_glue_v9_some() {
    let mut client = match StunClienteBuilder::new(TransportReliability::Reliable(Duration::from_secs(5))).with_max_transactions(1).build() { Ok(c) => c, Err(_) => return };
    let t0 = instant_at(1000, 0);
    let tid = match client.send_request(stun_rs::MessageMethod(1), StunAttributes::default(), vec![0u8; 20], t0) { Ok(t) => t, Err(_) => return };
    let ev = client.events(); std::mem::forget(ev);
    unsafe { POP0 = true; } let d = Duration::from_secs(6);
    client.on_timeout(t0 + d);
    let ev = client.events();
    let (f, _any) = finals_for(&ev, &tid);
    assert!((f == 1) == (client.transactions.len() == 0));
    std::mem::forget(ev);
    std::mem::forget(client);
}
#[kani::proof]
#[kani::unwind(4)]
#[kani::stub(alloc::fmt::format, nofmt)]
#[kani::stub(StunMessageTimeout::add, g_add)]
#[kani::stub(StunMessageTimeout::remove, g_remove)]
#[kani::stub(StunMessageTimeout::next_timeout, g_next_timeout)]
#[kani::stub(StunMessageTimeout::check, g_check_flag)]
#[kani::stub(RtoManager::next_rto, g_next_rto_some)]
fn probe_e1() {
    let mut client = match StunClienteBuilder::new(TransportReliability::Reliable(Duration::from_secs(5))).with_max_transactions(1).build() { Ok(c) => c, Err(_) => return };
    let t0 = instant_at(1000, 0);
    let tid = match client.send_request(stun_rs::MessageMethod(1), StunAttributes::default(), vec![0u8; 20], t0) { Ok(t) => t, Err(_) => return };
    let ev = client.events(); std::mem::forget(ev);
    let t = t0 + Duration::from_secs(6);
    if let Some(tr) = client.transactions.get_mut(&tid) { tr.instant = None; }
    assert!(client.transactions.len() == 1);
    std::mem::forget(client);
}
#[kani::proof]
#[kani::unwind(4)]
#[kani::stub(alloc::fmt::format, nofmt)]
#[kani::stub(StunMessageTimeout::add, g_add)]
#[kani::stub(StunMessageTimeout::remove, g_remove)]
#[kani::stub(StunMessageTimeout::next_timeout, g_next_timeout)]
#[kani::stub(StunMessageTimeout::check, g_check_flag)]
#[kani::stub(RtoManager::next_rto, g_next_rto_some)]
fn probe_e2() {
    let mut client = match StunClienteBuilder::new(TransportReliability::Reliable(Duration::from_secs(5))).with_max_transactions(1).build() { Ok(c) => c, Err(_) => return };
    let t0 = instant_at(1000, 0);
    let tid = match client.send_request(stun_rs::MessageMethod(1), StunAttributes::default(), vec![0u8; 20], t0) { Ok(t) => t, Err(_) => return };
    let ev = client.events(); std::mem::forget(ev);
    let t = t0 + Duration::from_secs(6);
    if let Some(tr) = client.transactions.get_mut(&tid) { tr.instant = None; client.timeouts.add(t, Duration::from_millis(500), tid); }
    assert!(client.transactions.len() == 1);
    std::mem::forget(client);
}
#[kani::proof]
#[kani::unwind(4)]
#[kani::stub(alloc::fmt::format, nofmt)]
#[kani::stub(StunMessageTimeout::add, g_add)]
#[kani::stub(StunMessageTimeout::remove, g_remove)]
#[kani::stub(StunMessageTimeout::next_timeout, g_next_timeout)]
#[kani::stub(StunMessageTimeout::check, g_check_flag)]
#[kani::stub(RtoManager::next_rto, g_next_rto_some)]
fn probe_e3() {
    let mut client = match StunClienteBuilder::new(TransportReliability::Reliable(Duration::from_secs(5))).with_max_transactions(1).build() { Ok(c) => c, Err(_) => return };
    let t0 = instant_at(1000, 0);
    let tid = match client.send_request(stun_rs::MessageMethod(1), StunAttributes::default(), vec![0u8; 20], t0) { Ok(t) => t, Err(_) => return };
    let ev = client.events(); std::mem::forget(ev);
    let t = t0 + Duration::from_secs(6);
    { let mut events = client.transaction_events.init();
      if let Some(tr) = client.transactions.get_mut(&tid) { tr.instant = None; events.push(StunClientEvent::OutputPacket(tr.packet.clone())); } }
    let ev = client.events(); assert!(ev.len() == 1); std::mem::forget(ev);
    assert!(client.transactions.len() == 1);
    std::mem::forget(client);
}
#[kani::proof]
#[kani::unwind(4)]
#[kani::stub(alloc::fmt::format, nofmt)]
#[kani::stub(StunMessageTimeout::add, g_add)]
#[kani::stub(StunMessageTimeout::remove, g_remove)]
#[kani::stub(StunMessageTimeout::next_timeout, g_next_timeout)]
#[kani::stub(StunMessageTimeout::check, g_check_flag)]
#[kani::stub(RtoManager::next_rto, g_next_rto_some)]
fn probe_e4() {
    let mut client = match StunClienteBuilder::new(TransportReliability::Reliable(Duration::from_secs(5))).with_max_transactions(1).build() { Ok(c) => c, Err(_) => return };
    let t0 = instant_at(1000, 0);
    let tid = match client.send_request(stun_rs::MessageMethod(1), StunAttributes::default(), vec![0u8; 20], t0) { Ok(t) => t, Err(_) => return };
    let ev = client.events(); std::mem::forget(ev);
    let t = t0 + Duration::from_secs(6);
    { let mut events = client.transaction_events.init();
      let timed_out = client.timeouts.check(t);
      for transaction_id in timed_out {
        if let Some(tr) = client.transactions.get_mut(&transaction_id) { tr.instant = None; events.push(StunClientEvent::OutputPacket(tr.packet.clone())); } } }
    let ev = client.events(); std::mem::forget(ev);
    unsafe { POP0 = true; } assert!(client.transactions.len() == 1);
    std::mem::forget(client);
}

#[repr(C)] #[derive(Clone, Copy)]
struct RawTs2 { sec: i64, nsec: u32, pad: u32 }
fn stub_cds(this: &Instant, earlier: Instant) -> Option<Duration> {
    let a: RawTs2 = unsafe { std::mem::transmute_copy(this) };
    let b: RawTs2 = unsafe { std::mem::transmute_copy(&earlier) };
    if (a.sec, a.nsec) >= (b.sec, b.nsec) {
        let (s, n) = if a.nsec >= b.nsec { ((a.sec - b.sec) as u64, a.nsec - b.nsec) } else { ((a.sec - b.sec - 1) as u64, a.nsec + 1_000_000_000 - b.nsec) };
        Some(Duration::new(s, n))
    } else { None }
}
#[kani::proof]
#[kani::unwind(4)]
#[kani::stub(alloc::fmt::format, nofmt)]
#[kani::stub(StunMessageTimeout::add, g_add)]
#[kani::stub(StunMessageTimeout::remove, g_remove)]
#[kani::stub(StunMessageTimeout::next_timeout, g_next_timeout)]
#[kani::stub(StunMessageTimeout::check, g_check_flag)]
#[kani::stub(RtoManager::next_rto, g_next_rto_some)]
fn probe_e5() {
    let mut client = match StunClienteBuilder::new(TransportReliability::Reliable(Duration::from_secs(5))).with_max_transactions(1).build() { Ok(c) => c, Err(_) => return };
    let t0 = instant_at(1000, 0);
    let tid = match client.send_request(stun_rs::MessageMethod(1), StunAttributes::default(), vec![0u8; 20], t0) { Ok(t) => t, Err(_) => return };
    let ev = client.events(); std::mem::forget(ev);
    let t = t0 + Duration::from_secs(6);
    unsafe { POP0 = true; }
    { let mut events = client.transaction_events.init();
      let timed_out = client.timeouts.check(t);
      for transaction_id in timed_out {
        if let Some(tr) = client.transactions.get_mut(&transaction_id) { tr.instant = None; client.timeouts.add(t, Duration::from_millis(500), transaction_id); events.push(StunClientEvent::OutputPacket(tr.packet.clone())); } } }
    let ev = client.events(); assert!(ev.len() == 1); std::mem::forget(ev);
    assert!(client.transactions.len() == 1);
    std::mem::forget(client);
}
#[kani::proof]
#[kani::unwind(4)]
#[kani::stub(alloc::fmt::format, nofmt)]
#[kani::stub(StunMessageTimeout::add, g_add)]
#[kani::stub(StunMessageTimeout::remove, g_remove)]
#[kani::stub(StunMessageTimeout::next_timeout, g_next_timeout)]
#[kani::stub(StunMessageTimeout::check, g_check_flag)]
#[kani::stub(RtoManager::next_rto, g_next_rto_some)]
#[kani::stub(std::time::Instant::checked_duration_since, stub_cds)]
fn probe_e6() {
    let mut client = match StunClienteBuilder::new(TransportReliability::Reliable(Duration::from_secs(5))).with_max_transactions(1).build() { Ok(c) => c, Err(_) => return };
    let t0 = instant_at(1000, 0);
    let tid = match client.send_request(stun_rs::MessageMethod(1), StunAttributes::default(), vec![0u8; 20], t0) { Ok(t) => t, Err(_) => return };
    let ev = client.events(); std::mem::forget(ev);
    let t = t0 + Duration::from_secs(6);
    unsafe { POP0 = true; }
    client.on_timeout(t);
    let ev = client.events(); std::mem::forget(ev);
    assert!(client.transactions.len() == 1);
    std::mem::forget(client);
}
#[kani::proof]
#[kani::unwind(4)]
#[kani::stub(alloc::fmt::format, nofmt)]
#[kani::stub(StunMessageTimeout::add, g_add)]
#[kani::stub(StunMessageTimeout::remove, g_remove)]
#[kani::stub(StunMessageTimeout::next_timeout, g_next_timeout)]
#[kani::stub(StunMessageTimeout::check, g_check_flag)]
#[kani::stub(RtoManager::next_rto, g_next_rto_some)]
fn probe_e7() {
    let mut client = match StunClienteBuilder::new(TransportReliability::Reliable(Duration::from_secs(5))).with_max_transactions(1).build() { Ok(c) => c, Err(_) => return };
    let t0 = instant_at(1000, 0);
    let tid = match client.send_request(stun_rs::MessageMethod(1), StunAttributes::default(), vec![0u8; 20], t0) { Ok(t) => t, Err(_) => return };
    let ev = client.events(); std::mem::forget(ev);
    let t = t0 + Duration::from_secs(6);
    unsafe { POP0 = false; }
    client.on_timeout(t);
    let ev = client.events(); std::mem::forget(ev);
    assert!(client.transactions.len() == 1);
    std::mem::forget(client);
}
#[kani::proof]
#[kani::unwind(4)]
#[kani::stub(alloc::fmt::format, nofmt)]
#[kani::stub(std::time::Instant::checked_duration_since, stub_cds)]
#[kani::stub(StunMessageTimeout::add, g_add)]
#[kani::stub(StunMessageTimeout::remove, g_remove)]
#[kani::stub(StunMessageTimeout::next_timeout, g_next_timeout)]
#[kani::stub(StunMessageTimeout::check, g_check)]
#[kani::stub(RtoManager::next_rto, g_next_rto)]
fn probe_g1_timeout_step() {
    let mut client = match StunClienteBuilder::new(TransportReliability::Reliable(Duration::from_secs(5))).with_max_transactions(1).build() { Ok(c) => c, Err(_) => return };
    let t0 = instant_at(1000, 0);
    let tid = match client.send_request(stun_rs::MessageMethod(1), StunAttributes::default(), vec![0u8; 20], t0) { Ok(t) => t, Err(_) => return };
    let ev = client.events(); std::mem::forget(ev);
    let d = any_offset(8);
    client.on_timeout(t0 + d);
    let ev = client.events();
    let (f, _any) = finals_for(&ev, &tid);
    kani::cover!(f == 1, "final outcome reachable");
    kani::cover!(f == 0, "non-final reachable");
    assert!((f == 1) == (client.transactions.len() == 0));
    std::mem::forget(ev);
    std::mem::forget(client);
}
#[kani::proof]
#[kani::unwind(4)]
#[kani::stub(alloc::fmt::format, nofmt)]
#[kani::stub(std::time::Instant::checked_duration_since, stub_cds)]
#[kani::stub(StunMessageTimeout::add, g_add)]
#[kani::stub(StunMessageTimeout::remove, g_remove)]
#[kani::stub(StunMessageTimeout::next_timeout, g_next_timeout)]
#[kani::stub(StunMessageTimeout::check, g_check)]
#[kani::stub(RtoManager::next_rto, g_next_rto)]
fn probe_g2_two_steps() {
    let mut client = match StunClienteBuilder::new(TransportReliability::Reliable(Duration::from_secs(5))).with_max_transactions(1).build() { Ok(c) => c, Err(_) => return };
    let t0 = instant_at(1000, 0);
    let tid = match client.send_request(stun_rs::MessageMethod(1), StunAttributes::default(), vec![0u8; 20], t0) { Ok(t) => t, Err(_) => return };
    let ev = client.events(); std::mem::forget(ev);
    let mut finals = 0usize;
    let mut now = Duration::ZERO;
    let mut step = 0;
    while step < 2 {
        now = now + any_offset(6);
        let t = t0 + now;
        if kani::any() { client.on_timeout(t); } else { let r = client.on_buffer_recv(&[0u8; 20], t); std::mem::forget(r); }
        let ev = client.events();
        let (f, any) = finals_for(&ev, &tid);
        if finals >= 1 { assert!(any == 0); }
        finals += f;
        assert!(finals <= 1);
        std::mem::forget(ev);
        step += 1;
    }
    std::mem::forget(client);
}
#[kani::proof]
#[kani::unwind(4)]
#[kani::stub(alloc::fmt::format, nofmt)]
#[kani::stub(std::time::Instant::checked_duration_since, stub_cds)]
fn probe_g3_real_components() {
    let mut client = match StunClienteBuilder::new(TransportReliability::Reliable(Duration::from_secs(5))).with_max_transactions(1).build() { Ok(c) => c, Err(_) => return };
    let t0 = instant_at(1000, 0);
    let tid = match client.send_request(stun_rs::MessageMethod(1), StunAttributes::default(), vec![0u8; 20], t0) { Ok(t) => t, Err(_) => return };
    let ev = client.events(); std::mem::forget(ev);
    let d = any_offset(8);
    client.on_timeout(t0 + d);
    let ev = client.events();
    let (f, _any) = finals_for(&ev, &tid);
    kani::cover!(f == 1, "final outcome reachable");
    assert!((f == 1) == (d >= Duration::from_secs(5)));
    assert!((f == 1) == (client.transactions.len() == 0));
    std::mem::forget(ev);
    std::mem::forget(client);
}

// check model, case-split form: the harness fixes (concretely) whether entry 0 is due; the model
// then *assumes* that this is consistent with the instant it is called with.
fn g_check_flag2(_s: &mut StunMessageTimeout, instant: Instant) -> Vec<TransactionId> {
    unsafe {
        if G[0].used {
            let due = g_exp(0) <= instant;
            kani::assume(due == POP0);
            if POP0 { G[0].used = false; return vec![G[0].id]; }
        }
        Vec::new()
    }
}
#[kani::proof]
#[kani::unwind(4)]
#[kani::stub(alloc::fmt::format, nofmt)]
#[kani::stub(std::time::Instant::checked_duration_since, stub_cds)]
#[kani::stub(StunMessageTimeout::add, g_add)]
#[kani::stub(StunMessageTimeout::remove, g_remove)]
#[kani::stub(StunMessageTimeout::next_timeout, g_next_timeout)]
#[kani::stub(StunMessageTimeout::check, g_check_flag2)]
#[kani::stub(RtoManager::next_rto, g_next_rto)]
fn probe_g4_due() {
    let mut client = match StunClienteBuilder::new(TransportReliability::Reliable(Duration::from_secs(5))).with_max_transactions(1).build() { Ok(c) => c, Err(_) => return };
    let t0 = instant_at(1000, 0);
    let tid = match client.send_request(stun_rs::MessageMethod(1), StunAttributes::default(), vec![0u8; 20], t0) { Ok(t) => t, Err(_) => return };
    let ev = client.events(); std::mem::forget(ev);
    unsafe { POP0 = true; }
    let d = any_offset(8);
    client.on_timeout(t0 + d);
    let ev = client.events();
    let (f, _any) = finals_for(&ev, &tid);
    kani::cover!(f == 1, "final outcome reachable");
    kani::cover!(f == 0, "non-final reachable");
    assert!((f == 1) == (client.transactions.len() == 0));
    std::mem::forget(ev);
    std::mem::forget(client);
}
#[kani::proof]
#[kani::unwind(4)]
#[kani::stub(alloc::fmt::format, nofmt)]
#[kani::stub(std::time::Instant::checked_duration_since, stub_cds)]
#[kani::stub(StunMessageTimeout::add, g_add)]
#[kani::stub(StunMessageTimeout::remove, g_remove)]
#[kani::stub(StunMessageTimeout::next_timeout, g_next_timeout)]
#[kani::stub(StunMessageTimeout::check, g_check_flag2)]
#[kani::stub(RtoManager::next_rto, g_next_rto)]
fn probe_g4_notdue() {
    let mut client = match StunClienteBuilder::new(TransportReliability::Reliable(Duration::from_secs(5))).with_max_transactions(1).build() { Ok(c) => c, Err(_) => return };
    let t0 = instant_at(1000, 0);
    let tid = match client.send_request(stun_rs::MessageMethod(1), StunAttributes::default(), vec![0u8; 20], t0) { Ok(t) => t, Err(_) => return };
    let ev = client.events(); std::mem::forget(ev);
    unsafe { POP0 = false; }
    let d = any_offset(8);
    client.on_timeout(t0 + d);
    let ev = client.events();
    let (f, _any) = finals_for(&ev, &tid);
    kani::cover!(f == 1, "final outcome reachable");
    kani::cover!(f == 0, "non-final reachable");
    assert!((f == 1) == (client.transactions.len() == 0));
    std::mem::forget(ev);
    std::mem::forget(client);
}

static mut FIRST_RTO_DONE: bool = false;
fn g_next_rto_first_some(_s: &mut RtoManager, _instant: Instant) -> Option<Duration> {
    unsafe { if !FIRST_RTO_DONE { FIRST_RTO_DONE = true; return Some(Duration::from_secs(5)); } }
    if kani::any() { Some(Duration::from_millis(500)) } else { None }
}
#[kani::proof]
#[kani::unwind(4)]
#[kani::stub(alloc::fmt::format, nofmt)]
#[kani::stub(std::time::Instant::checked_duration_since, stub_cds)]
#[kani::stub(StunMessageTimeout::add, g_add)]
#[kani::stub(StunMessageTimeout::remove, g_remove)]
#[kani::stub(StunMessageTimeout::next_timeout, g_next_timeout)]
#[kani::stub(StunMessageTimeout::check, g_check_flag2)]
#[kani::stub(RtoManager::next_rto, g_next_rto_some)]
fn probe_g5a_symtime_some() {
    let mut client = match StunClienteBuilder::new(TransportReliability::Reliable(Duration::from_secs(5))).with_max_transactions(1).build() { Ok(c) => c, Err(_) => return };
    let t0 = instant_at(1000, 0);
    let tid = match client.send_request(stun_rs::MessageMethod(1), StunAttributes::default(), vec![0u8; 20], t0) { Ok(t) => t, Err(_) => return };
    let ev = client.events(); std::mem::forget(ev);
    unsafe { POP0 = true; }
    let d = any_offset(8);
    client.on_timeout(t0 + d);
    let ev = client.events();
    let (f, _any) = finals_for(&ev, &tid);
    kani::cover!(f == 1, "final outcome reachable");
    kani::cover!(f == 0, "non-final reachable");
    assert!((f == 1) == (client.transactions.len() == 0));
    std::mem::forget(ev);
    std::mem::forget(client);
}
#[kani::proof]
#[kani::unwind(4)]
#[kani::stub(alloc::fmt::format, nofmt)]
#[kani::stub(std::time::Instant::checked_duration_since, stub_cds)]
#[kani::stub(StunMessageTimeout::add, g_add)]
#[kani::stub(StunMessageTimeout::remove, g_remove)]
#[kani::stub(StunMessageTimeout::next_timeout, g_next_timeout)]
#[kani::stub(StunMessageTimeout::check, g_check_flag2)]
#[kani::stub(RtoManager::next_rto, g_next_rto_first_some)]
fn probe_g5b_conctime_nondet() {
    let mut client = match StunClienteBuilder::new(TransportReliability::Reliable(Duration::from_secs(5))).with_max_transactions(1).build() { Ok(c) => c, Err(_) => return };
    let t0 = instant_at(1000, 0);
    let tid = match client.send_request(stun_rs::MessageMethod(1), StunAttributes::default(), vec![0u8; 20], t0) { Ok(t) => t, Err(_) => return };
    let ev = client.events(); std::mem::forget(ev);
    unsafe { POP0 = true; }
    let d = Duration::from_secs(6);
    client.on_timeout(t0 + d);
    let ev = client.events();
    let (f, _any) = finals_for(&ev, &tid);
    kani::cover!(f == 1, "final outcome reachable");
    kani::cover!(f == 0, "non-final reachable");
    assert!((f == 1) == (client.transactions.len() == 0));
    std::mem::forget(ev);
    std::mem::forget(client);
}
#[kani::proof]
#[kani::unwind(4)]
#[kani::stub(alloc::fmt::format, nofmt)]
#[kani::stub(std::time::Instant::checked_duration_since, stub_cds)]
#[kani::stub(StunMessageTimeout::add, g_add)]
#[kani::stub(StunMessageTimeout::remove, g_remove)]
#[kani::stub(StunMessageTimeout::next_timeout, g_next_timeout)]
#[kani::stub(StunMessageTimeout::check, g_check_flag2)]
#[kani::stub(RtoManager::next_rto, g_next_rto_first_some)]
fn probe_g5c_symtime_nondet() {
    let mut client = match StunClienteBuilder::new(TransportReliability::Reliable(Duration::from_secs(5))).with_max_transactions(1).build() { Ok(c) => c, Err(_) => return };
    let t0 = instant_at(1000, 0);
    let tid = match client.send_request(stun_rs::MessageMethod(1), StunAttributes::default(), vec![0u8; 20], t0) { Ok(t) => t, Err(_) => return };
    let ev = client.events(); std::mem::forget(ev);
    unsafe { POP0 = true; }
    let d = any_offset(8);
    client.on_timeout(t0 + d);
    let ev = client.events();
    let (f, _any) = finals_for(&ev, &tid);
    kani::cover!(f == 1, "final outcome reachable");
    kani::cover!(f == 0, "non-final reachable");
    assert!((f == 1) == (client.transactions.len() == 0));
    std::mem::forget(ev);
    std::mem::forget(client);
}
#[kani::proof]
#[kani::unwind(4)]
#[kani::stub(alloc::fmt::format, nofmt)]
#[kani::stub(std::time::Instant::checked_duration_since, stub_cds)]
#[kani::stub(StunMessageTimeout::add, g_add)]
#[kani::stub(StunMessageTimeout::remove, g_remove)]
#[kani::stub(StunMessageTimeout::next_timeout, g_next_timeout)]
#[kani::stub(StunMessageTimeout::check, g_check_flag2)]
#[kani::stub(RtoManager::next_rto, g_next_rto_some)]
fn probe_e8a() {
    let mut client = match StunClienteBuilder::new(TransportReliability::Reliable(Duration::from_secs(5))).with_max_transactions(1).build() { Ok(c) => c, Err(_) => return };
    let t0 = instant_at(1000, 0);
    let _tid = match client.send_request(stun_rs::MessageMethod(1), StunAttributes::default(), vec![0u8; 20], t0) { Ok(t) => t, Err(_) => return };
    let ev = client.events(); std::mem::forget(ev);
    unsafe { POP0 = true; }
    let t = t0 + any_offset(8);
    { let timed_out = client.timeouts.check(t);
      for transaction_id in timed_out { if let Some(tr) = client.transactions.get_mut(&transaction_id) { tr.instant = None; } } }
    assert!(client.transactions.len() == 1);
    std::mem::forget(client);
}
#[kani::proof]
#[kani::unwind(4)]
#[kani::stub(alloc::fmt::format, nofmt)]
#[kani::stub(std::time::Instant::checked_duration_since, stub_cds)]
#[kani::stub(StunMessageTimeout::add, g_add)]
#[kani::stub(StunMessageTimeout::remove, g_remove)]
#[kani::stub(StunMessageTimeout::next_timeout, g_next_timeout)]
#[kani::stub(StunMessageTimeout::check, g_check_flag2)]
#[kani::stub(RtoManager::next_rto, g_next_rto_some)]
fn probe_e8b() {
    let mut client = match StunClienteBuilder::new(TransportReliability::Reliable(Duration::from_secs(5))).with_max_transactions(1).build() { Ok(c) => c, Err(_) => return };
    let t0 = instant_at(1000, 0);
    let _tid = match client.send_request(stun_rs::MessageMethod(1), StunAttributes::default(), vec![0u8; 20], t0) { Ok(t) => t, Err(_) => return };
    let ev = client.events(); std::mem::forget(ev);
    unsafe { POP0 = true; }
    let t = t0 + any_offset(8);
    { let timed_out = client.timeouts.check(t);
      for transaction_id in timed_out { if let Some(tr) = client.transactions.get_mut(&transaction_id) { tr.instant = None; client.timeouts.add(t, Duration::from_millis(500), transaction_id); } } }
    assert!(client.transactions.len() == 1);
    std::mem::forget(client);
}
#[kani::proof]
#[kani::unwind(4)]
#[kani::stub(alloc::fmt::format, nofmt)]
#[kani::stub(std::time::Instant::checked_duration_since, stub_cds)]
#[kani::stub(StunMessageTimeout::add, g_add)]
#[kani::stub(StunMessageTimeout::remove, g_remove)]
#[kani::stub(StunMessageTimeout::next_timeout, g_next_timeout)]
#[kani::stub(StunMessageTimeout::check, g_check_flag2)]
#[kani::stub(RtoManager::next_rto, g_next_rto_some)]
fn probe_e8c() {
    let mut client = match StunClienteBuilder::new(TransportReliability::Reliable(Duration::from_secs(5))).with_max_transactions(1).build() { Ok(c) => c, Err(_) => return };
    let t0 = instant_at(1000, 0);
    let _tid = match client.send_request(stun_rs::MessageMethod(1), StunAttributes::default(), vec![0u8; 20], t0) { Ok(t) => t, Err(_) => return };
    let ev = client.events(); std::mem::forget(ev);
    unsafe { POP0 = true; }
    let t = t0 + any_offset(8);
    { let mut events = client.transaction_events.init();
      let timed_out = client.timeouts.check(t);
      for transaction_id in timed_out { if let Some(tr) = client.transactions.get_mut(&transaction_id) { tr.instant = None; client.timeouts.add(t, Duration::from_millis(500), transaction_id); events.push(StunClientEvent::OutputPacket(tr.packet.clone())); } } }
    let ev = client.events(); std::mem::forget(ev);
    assert!(client.transactions.len() == 1);
    std::mem::forget(client);
}
#[kani::proof]
#[kani::unwind(4)]
#[kani::stub(alloc::fmt::format, nofmt)]
#[kani::stub(std::time::Instant::checked_duration_since, stub_cds)]
#[kani::stub(StunMessageTimeout::add, g_add)]
#[kani::stub(StunMessageTimeout::remove, g_remove)]
#[kani::stub(StunMessageTimeout::next_timeout, g_next_timeout)]
#[kani::stub(StunMessageTimeout::check, g_check_flag2)]
#[kani::stub(RtoManager::next_rto, g_next_rto_some)]
fn probe_e8d() {
    let mut client = match StunClienteBuilder::new(TransportReliability::Reliable(Duration::from_secs(5))).with_max_transactions(1).build() { Ok(c) => c, Err(_) => return };
    let t0 = instant_at(1000, 0);
    let _tid = match client.send_request(stun_rs::MessageMethod(1), StunAttributes::default(), vec![0u8; 20], t0) { Ok(t) => t, Err(_) => return };
    let ev = client.events(); std::mem::forget(ev);
    unsafe { POP0 = true; }
    let t = t0 + any_offset(8);
    { let mut events = client.transaction_events.init();
      let timed_out = client.timeouts.check(t);
      for transaction_id in timed_out { if let Some(tr) = client.transactions.get_mut(&transaction_id) { tr.instant = None; client.timeouts.add(t, Duration::from_millis(500), transaction_id); events.push(StunClientEvent::OutputPacket(tr.packet.clone())); } }
      if let Some((id, left)) = client.timeouts.next_timeout(t) { events.push(StunClientEvent::RestransmissionTimeOut((id, left))); } }
    let ev = client.events(); std::mem::forget(ev);
    assert!(client.transactions.len() == 1);
    std::mem::forget(client);
}
#[kani::proof]
#[kani::unwind(4)]
#[kani::stub(alloc::fmt::format, nofmt)]
#[kani::stub(std::time::Instant::checked_duration_since, stub_cds)]
#[kani::stub(StunMessageTimeout::add, g_add)]
#[kani::stub(StunMessageTimeout::remove, g_remove)]
#[kani::stub(StunMessageTimeout::next_timeout, g_next_timeout)]
#[kani::stub(StunMessageTimeout::check, g_check_flag2)]
#[kani::stub(RtoManager::next_rto, g_next_rto_some)]
fn probe_e9a() {
    let mut client = match StunClienteBuilder::new(TransportReliability::Reliable(Duration::from_secs(5))).with_max_transactions(1).build() { Ok(c) => c, Err(_) => return };
    let t0 = instant_at(1000, 0);
    let _tid = match client.send_request(stun_rs::MessageMethod(1), StunAttributes::default(), vec![0u8; 20], t0) { Ok(t) => t, Err(_) => return };
    let ev = client.events(); std::mem::forget(ev);
    unsafe { POP0 = true; }
    let t = t0 + any_offset(8);
    { let mut events = client.transaction_events.init();
      let timed_out = client.timeouts.check(t);
      for transaction_id in timed_out { if let Some(tr) = client.transactions.get_mut(&transaction_id) {
          match tr.rtos.next_rto(t) { Some(rto) => { tr.instant = None; client.timeouts.add(t, rto, transaction_id); events.push(StunClientEvent::OutputPacket(tr.packet.clone())); } None => {} } } }
      if let Some((id, left)) = client.timeouts.next_timeout(t) { events.push(StunClientEvent::RestransmissionTimeOut((id, left))); } }
    let ev = client.events(); std::mem::forget(ev);
    assert!(client.transactions.len() == 1);
    std::mem::forget(client);
}
#[kani::proof]
#[kani::unwind(4)]
#[kani::stub(alloc::fmt::format, nofmt)]
#[kani::stub(std::time::Instant::checked_duration_since, stub_cds)]
#[kani::stub(StunMessageTimeout::add, g_add)]
#[kani::stub(StunMessageTimeout::remove, g_remove)]
#[kani::stub(StunMessageTimeout::next_timeout, g_next_timeout)]
#[kani::stub(StunMessageTimeout::check, g_check_flag2)]
#[kani::stub(RtoManager::next_rto, g_next_rto_some)]
fn probe_e9b() {
    let mut client = match StunClienteBuilder::new(TransportReliability::Reliable(Duration::from_secs(5))).with_max_transactions(1).build() { Ok(c) => c, Err(_) => return };
    let t0 = instant_at(1000, 0);
    let _tid = match client.send_request(stun_rs::MessageMethod(1), StunAttributes::default(), vec![0u8; 20], t0) { Ok(t) => t, Err(_) => return };
    let ev = client.events(); std::mem::forget(ev);
    unsafe { POP0 = true; }
    let t = t0 + any_offset(8);
    { let mut events = client.transaction_events.init();
      let timed_out = client.timeouts.check(t);
      for transaction_id in timed_out { if let Some(tr) = client.transactions.get_mut(&transaction_id) {
          match tr.rtos.next_rto(t) { Some(rto) => { tr.instant = None; client.timeouts.add(t, rto, transaction_id);
              log::debug!("set timeout {:?} for transaction {:?}", rto, transaction_id);
              events.push(StunClientEvent::OutputPacket(tr.packet.clone())); } None => {} } } }
      if let Some((id, left)) = client.timeouts.next_timeout(t) { events.push(StunClientEvent::RestransmissionTimeOut((id, left))); } }
    let ev = client.events(); std::mem::forget(ev);
    assert!(client.transactions.len() == 1);
    std::mem::forget(client);
}
#[kani::proof]
#[kani::unwind(4)]
#[kani::stub(alloc::fmt::format, nofmt)]
#[kani::stub(std::time::Instant::checked_duration_since, stub_cds)]
#[kani::stub(StunMessageTimeout::add, g_add)]
#[kani::stub(StunMessageTimeout::remove, g_remove)]
#[kani::stub(StunMessageTimeout::next_timeout, g_next_timeout)]
#[kani::stub(StunMessageTimeout::check, g_check_flag2)]
#[kani::stub(RtoManager::next_rto, g_next_rto_some)]
fn probe_e9c() {
    let mut client = match StunClienteBuilder::new(TransportReliability::Reliable(Duration::from_secs(5))).with_max_transactions(1).build() { Ok(c) => c, Err(_) => return };
    let t0 = instant_at(1000, 0);
    let _tid = match client.send_request(stun_rs::MessageMethod(1), StunAttributes::default(), vec![0u8; 20], t0) { Ok(t) => t, Err(_) => return };
    let ev = client.events(); std::mem::forget(ev);
    unsafe { POP0 = true; }
    let t = t0 + any_offset(8);
    { let mut events = client.transaction_events.init();
      let timed_out = client.timeouts.check(t);
      for transaction_id in timed_out { if let Some(tr) = client.transactions.get_mut(&transaction_id) {
          match tr.rtos.next_rto(t) { Some(rto) => { tr.instant = None; client.timeouts.add(t, rto, transaction_id);
              events.push(StunClientEvent::OutputPacket(tr.packet.clone())); }
            None => {
              let protection_violated = client.mechanism.as_mut().is_some_and(|m| m.signal_protection_violated_on_timeout(&transaction_id));
              let event = if protection_violated { StunClientEvent::TransactionFailed((transaction_id, StunTransactionError::ProtectionViolated)) } else { StunClientEvent::TransactionFailed((transaction_id, StunTransactionError::TimedOut)) };
              log::info!("Transaction {:?} timed out. Event: {:?}", transaction_id, event);
              events.push(event); } } } else { log::warn!("Transaction {:?} not found", transaction_id); } }
      if let Some((id, left)) = client.timeouts.next_timeout(t) { events.push(StunClientEvent::RestransmissionTimeOut((id, left))); } }
    let ev = client.events(); std::mem::forget(ev);
    assert!(client.transactions.len() == 1);
    std::mem::forget(client);
}
#[kani::proof]
#[kani::unwind(4)]
#[kani::stub(alloc::fmt::format, nofmt)]
#[kani::stub(std::time::Instant::checked_duration_since, stub_cds)]
#[kani::stub(StunMessageTimeout::add, g_add)]
#[kani::stub(StunMessageTimeout::remove, g_remove)]
#[kani::stub(StunMessageTimeout::next_timeout, g_next_timeout)]
#[kani::stub(StunMessageTimeout::check, g_check_flag2)]
#[kani::stub(RtoManager::next_rto, g_next_rto_some)]
fn probe_e10_real_noinspect() {
    let mut client = match StunClienteBuilder::new(TransportReliability::Reliable(Duration::from_secs(5))).with_max_transactions(1).build() { Ok(c) => c, Err(_) => return };
    let t0 = instant_at(1000, 0);
    let tid = match client.send_request(stun_rs::MessageMethod(1), StunAttributes::default(), vec![0u8; 20], t0) { Ok(t) => t, Err(_) => return };
    let ev = client.events(); std::mem::forget(ev);
    unsafe { POP0 = true; }
    let t = t0 + any_offset(8);
    client.on_timeout(t);
    let ev = client.events(); std::mem::forget(ev);
    assert!(client.transactions.len() == 1);
    std::mem::forget(client);
}
#[kani::proof]
#[kani::unwind(4)]
#[kani::stub(alloc::fmt::format, nofmt)]
#[kani::stub(std::time::Instant::checked_duration_since, stub_cds)]
#[kani::stub(StunMessageTimeout::add, g_add)]
#[kani::stub(StunMessageTimeout::remove, g_remove)]
#[kani::stub(StunMessageTimeout::next_timeout, g_next_timeout)]
#[kani::stub(StunMessageTimeout::check, g_check_flag2)]
#[kani::stub(RtoManager::next_rto, g_next_rto_first_some)]
fn probe_e11_real_nondet_lenonly() {
    let mut client = match StunClienteBuilder::new(TransportReliability::Reliable(Duration::from_secs(5))).with_max_transactions(1).build() { Ok(c) => c, Err(_) => return };
    let t0 = instant_at(1000, 0);
    let tid = match client.send_request(stun_rs::MessageMethod(1), StunAttributes::default(), vec![0u8; 20], t0) { Ok(t) => t, Err(_) => return };
    let ev = client.events(); std::mem::forget(ev);
    unsafe { POP0 = true; }
    let t = t0 + any_offset(8);
    client.on_timeout(t);
    let ev = client.events();
    kani::cover!(ev.len() == 1, "failed arm");
    kani::cover!(ev.len() == 2, "retransmit arm");
    // D2 shows up here: after the final-timeout arm (1 event) the table must be empty
    assert!((ev.len() == 1) == (client.transactions.len() == 0));
    std::mem::forget(ev);
    std::mem::forget(client);
}

fn is_final0(ev: &Vec<StunClientEvent>) -> bool {
    if ev.len() == 0 { return false; }
    match &ev[0] {
        StunClientEvent::TransactionFailed(_) => true,
        StunClientEvent::Retry(_) => true,
        StunClientEvent::StunMessageReceived(m) => m.class != stun_rs::MessageClass::Indication,
        _ => false,
    }
}
#[kani::proof]
#[kani::unwind(4)]
#[kani::stub(alloc::fmt::format, nofmt)]
#[kani::stub(std::time::Instant::checked_duration_since, stub_cds)]
#[kani::stub(StunMessageTimeout::add, g_add)]
#[kani::stub(StunMessageTimeout::remove, g_remove)]
#[kani::stub(StunMessageTimeout::next_timeout, g_next_timeout)]
#[kani::stub(StunMessageTimeout::check, g_check)]
#[kani::stub(RtoManager::next_rto, g_next_rto_first_some)]
fn probe_h2_two_steps_light() {
    let mut client = match StunClienteBuilder::new(TransportReliability::Reliable(Duration::from_secs(5))).with_max_transactions(1).build() { Ok(c) => c, Err(_) => return };
    let t0 = instant_at(1000, 0);
    let _tid = match client.send_request(stun_rs::MessageMethod(1), StunAttributes::default(), vec![0u8; 20], t0) { Ok(t) => t, Err(_) => return };
    let ev = client.events(); std::mem::forget(ev);
    let d1 = any_offset(6);
    if kani::any() { client.on_timeout(t0 + d1); } else { let r = client.on_buffer_recv(&[0u8; 20], t0 + d1); std::mem::forget(r); }
    let ev1 = client.events();
    let f1 = is_final0(&ev1);
    std::mem::forget(ev1);
    let d2 = d1 + any_offset(6);
    if kani::any() { client.on_timeout(t0 + d2); } else { let r = client.on_buffer_recv(&[0u8; 20], t0 + d2); std::mem::forget(r); }
    let ev2 = client.events();
    kani::cover!(f1, "first step final");
    if f1 {
        // after a final outcome: silence (indications for other ids may still be delivered, class Indication)
        assert!(!is_final0(&ev2));
        assert!(ev2.len() <= 1);
    }
    std::mem::forget(ev2);
    std::mem::forget(client);
}
