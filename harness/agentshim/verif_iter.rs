// C09 (agent side): the real ProtectedAttributeIterator of stun-agent/src/lib.rs yields exactly the
// subsequence admitted by the RFC 8489 ordering rule.  Child module of lib.rs.
#![allow(dead_code, unused_imports)]
use super::*;
use stun_rs::attrs_model::{Fingerprint, MessageIntegrity, MessageIntegritySha256, Other, StunAttribute as SA};

fn c09_protected_iter<const N: usize>() {
    let mut attrs = [SA::Other(Other { code: 0x8022, val: 0 }); N];
    let mut kinds = [0u8; N];
    let mut i = 0;
    while i < N {
        let k: u8 = kani::any();
        kani::assume(k < 4);
        kinds[i] = k;
        attrs[i] = match k {
            1 => SA::MessageIntegrity(MessageIntegrity::Decodable(i as u8)),
            2 => SA::MessageIntegritySha256(MessageIntegritySha256::Decodable(i as u8)),
            3 => SA::Fingerprint(Fingerprint::Decodable(true)),
            _ => SA::Other(Other { code: 0x8022, val: i as u8 }),
        };
        i += 1;
    }
    let (mut mi, mut sha, mut fp) = (false, false, false);
    let slice: &[SA] = &attrs;
    let mut it = slice.protected_iter();
    let mut i = 0;
    while i < N {
        let k = kinds[i];
        let admitted = match k {
            1 => !(mi || sha || fp),
            2 => !(sha || fp),
            3 => !fp,
            _ => !(mi || sha || fp),
        };
        match k {
            1 => mi = true,
            2 => sha = true,
            3 => fp = true,
            _ => {}
        }
        if admitted {
            match it.next() {
                Some(a) => assert!(*a == attrs[i], "C09: the protected iterator yields the admitted attributes in wire order"),
                None => assert!(false, "C09: an admitted attribute is missing"),
            }
        }
        i += 1;
    }
    assert!(it.next().is_none(), "C09: nothing that the rule does not admit is yielded");
}

macro_rules! it_inst {
    ($($name:ident = $n:expr;)*) => {$(
        #[kani::proof]
        #[kani::unwind(10)]
        fn $name() { c09_protected_iter::<$n>(); }
    )*};
}
it_inst! {
    c09_protected_iter_n3 = 3;
    c09_protected_iter_n5 = 5;
    c09_protected_iter_n7 = 7;
}
