#!/bin/bash
# confirm_seed.sh <seed-id> <agent-worktree> <property>
# Confirms a seeded change independently in a fresh scratch worktree and stores it under /verif/seeded/<seed-id>/.
set -u
ID=$1; WT=$2; PROP=$3
OUT=/verif/seeded/$ID
CW=/tmp/confirm-$ID
mkdir -p $OUT
cd $WT || exit 1
git diff HEAD -- . ':(exclude)SEED_NOTES.md' > $OUT/patch.diff
DEMOS=$(git ls-files --others --exclude-standard | grep -v SEED_NOTES.md | grep -v change.patch | grep -v '^target/' || true)
[ -f SEED_NOTES.md ] && cp SEED_NOTES.md $OUT/SEED_NOTES.md
mkdir -p $OUT/demo
for f in $DEMOS; do mkdir -p $OUT/demo/$(dirname $f); cp $f $OUT/demo/$f; done
# appended #[cfg(test)] modules inside source files stay in patch.diff (noted in meta)
git -C /repo worktree remove --force $CW 2>/dev/null
git -C /repo worktree add -q --detach $CW HEAD || exit 1
cd $CW
for f in $DEMOS; do mkdir -p $(dirname $f); cp $WT/$f $f; done
demo_targets=""
for f in $DEMOS; do case $f in */tests/*.rs) demo_targets="$demo_targets $(echo $f | cut -d/ -f1):$(basename $f .rs)";; esac; done
run_demo() { rc=0; for t in $demo_targets; do p=${t%%:*}; n=${t##*:}; cargo test -p $p --offline --test $n >> $OUT/log_$1.txt 2>&1 || rc=1; done; return $rc; }
: > $OUT/log_demo_without.txt; : > $OUT/log_demo_with.txt
run_demo demo_without; R_WITHOUT=$?
git apply $OUT/patch.diff || { echo "patch does not apply"; exit 1; }
run_demo demo_with; R_WITH=$?
for f in $DEMOS; do rm -f $f; done
cargo test --workspace --offline > $OUT/log_suite_with.txt 2>&1; R_SUITE=$?
cat > $OUT/meta.json <<EOM
{
 "seed_id": "$ID",
 "property": "$PROP",
 "demo_files": "$(echo $DEMOS)",
 "confirmed": {
  "demo_passes_without_change": $([ $R_WITHOUT = 0 ] && echo true || echo false),
  "demo_fails_with_change": $([ $R_WITH != 0 ] && echo true || echo false),
  "existing_suite_passes_with_change": $([ $R_SUITE = 0 ] && echo true || echo false)
 },
 "ran": ["git worktree add /tmp/confirm-$ID HEAD", "cargo test -p <crate> --offline --test <demo> (without change, then with change)", "cargo test --workspace --offline (with change, demo removed)"],
 "base_commit": "$(git -C /repo rev-parse --short HEAD)"
}
EOM
cd /
git -C /repo worktree remove --force $CW
rm -f $OUT/log_suite_with.txt.tmp
tail -3 $OUT/log_suite_with.txt > $OUT/log_suite_with.tail; rm -f $OUT/log_suite_with.txt
echo "$ID: without=$R_WITHOUT with=$R_WITH suite=$R_SUITE"
