//! Environment model of the `stun_rs` API surface that stun-agent's client.rs / timeout.rs /
//! events.rs import (DESIGN §1.3).  stun-rs is the *environment* of the agent: every function
//! here may do whatever the real codec can do, as far as the agent can observe it:
//!   * MessageDecoder::decode  -> Err, or a message of any class with any transaction id
//!   * MessageEncoder::encode  -> Err, or Ok(size <= buffer length)
//! The choices are made by the harness (it sets the `ENV` statics from kani::any()) so that the
//! harness knows which behaviour it is checking.  The real codec is verified separately on the
//! real stun-rs (C01-C04, C09, C10, C14, C18, C19).
#![allow(dead_code, static_mut_refs)]
use std::fmt;

#[derive(Debug)]
pub struct StunError;
impl fmt::Display for StunError {
    fn fmt(&self, _f: &mut fmt::Formatter) -> fmt::Result {
        Ok(())
    }
}

pub mod error {
    use std::fmt;
    #[derive(Debug)]
    pub struct StunEncodeError;
    impl fmt::Display for StunEncodeError {
        fn fmt(&self, _f: &mut fmt::Formatter) -> fmt::Result {
            Ok(())
        }
    }
    #[derive(Debug)]
    pub struct StunDecodeError;
    impl fmt::Display for StunDecodeError {
        fn fmt(&self, _f: &mut fmt::Formatter) -> fmt::Result {
            Ok(())
        }
    }
}

pub mod attributes {
    pub mod stun {
        #[derive(Debug, Clone)]
        pub struct UserName;
        impl UserName {
            pub fn new<S: AsRef<str>>(_s: S) -> Result<Self, crate::StunError> {
                Ok(UserName)
            }
        }
    }
}

/// Transaction ids are small tokens; `Default` (the RNG in the real crate) hands out fresh,
/// pairwise distinct ids from a counter: "the RNG does not repeat an id" is an assumption.
#[derive(Clone, Copy, PartialEq, Eq, Hash, PartialOrd, Ord, Debug)]
pub struct TransactionId(pub u8);
pub static mut NEXT_TID: u8 = 0;
impl Default for TransactionId {
    fn default() -> Self {
        unsafe {
            NEXT_TID += 1;
            TransactionId(NEXT_TID)
        }
    }
}

#[derive(Debug, Clone, Copy, PartialEq, Eq)]
pub enum MessageClass {
    Request,
    Indication,
    SuccessResponse,
    ErrorResponse,
}

#[derive(Debug, Clone, Copy, PartialEq, Eq, Default)]
pub struct MessageMethod(pub u16);

#[derive(Debug, Clone)]
pub struct HMACKey;
impl HMACKey {
    pub fn new_short_term<S: AsRef<str>>(_p: S) -> Result<Self, StunError> {
        Ok(HMACKey)
    }
}

#[derive(Debug)]
pub struct StunMessage {
    pub class: MessageClass,
    pub tid: TransactionId,
}
impl StunMessage {
    pub fn class(&self) -> MessageClass {
        self.class
    }
    pub fn transaction_id(&self) -> &TransactionId {
        &self.tid
    }
}

/// What the environment does on the next calls; set by the harness.
pub struct Env {
    /// decode: None = undecodable bytes, Some = decoded header
    pub decode: Option<(MessageClass, TransactionId)>,
    /// encode fails (e.g. buffer too small)
    pub encode_fails: bool,
}
pub static mut ENV: Env = Env { decode: None, encode_fails: false };

#[derive(Debug, Default, Clone)]
pub struct MessageDecoder;
impl MessageDecoder {
    pub fn decode(&self, _buffer: &[u8]) -> Result<(StunMessage, usize), error::StunDecodeError> {
        match unsafe { ENV.decode } {
            None => Err(error::StunDecodeError),
            Some((class, tid)) => Ok((StunMessage { class, tid }, 20)),
        }
    }
}

#[derive(Debug, Default, Clone)]
pub struct MessageEncoder;
impl MessageEncoder {
    pub fn encode(&self, buffer: &mut [u8], _msg: &StunMessage) -> Result<usize, error::StunEncodeError> {
        if buffer.len() < 20 || unsafe { ENV.encode_fails } {
            Err(error::StunEncodeError)
        } else {
            Ok(20)
        }
    }
}
