// Glue harnesses: the REAL client.rs (child module: private fields reachable) over the environment
// model of stun-rs and the contract models of the deadline queue and of the RTO schedule
// (DESIGN §1.3, §3 C05/C06/C10/C11/C12/C15/C17).
//
// One inductive step: a state with K live transactions is produced through the public API
// (send_request), then the parts of it that later operations may have changed are havocked
// (per-transaction send instant: Some(earlier)/None = "retransmitted"; queue deadlines: arbitrary),
// then ONE operation runs with arbitrary arguments / environment behaviour and the post-state and
// the events are compared with the property's reference.
//
// Invariant Inv (holds after every operation, checked by `inv`): the ids in the transaction table
// and the ids in the deadline queue coincide, one queue entry per id.
#![allow(dead_code, unused_imports, static_mut_refs)]
use super::*;
use crate::integrity::IntegrityError;
use crate::support_time::*;
use crate::timeout::{RtoManager, StunMessageTimeout};
use crate::events::verif_events::*;
use crate::{AENV, NEXT_PKT};
use stun_rs::{MessageClass, TransactionId, ENV};

// ------------------------------------------------------------------------------------------
// contract model of StunMessageTimeout (verified on the real code by the C11 kernel harnesses):
// two slots; next_timeout = an entry with minimal expiry, remaining time saturating at zero;
// check(t) pops exactly the entries with expiry <= t.  The due/not-due decision is concrete per
// harness instance (DUE flags) and made consistent with the symbolic instant by an assume.
// ------------------------------------------------------------------------------------------
#[derive(Clone, Copy)]
struct GEntry {
    used: bool,
    instant: Instant,
    timeout: Duration,
    id: TransactionId,
}
static mut G: [Option<GEntry>; 2] = [None, None];
static mut DUE: [bool; 2] = [false, false];

fn g_exp(e: &GEntry) -> Instant {
    e.instant + e.timeout
}
fn g_add(_s: &mut StunMessageTimeout, instant: Instant, timeout: Duration, id: TransactionId) {
    let e = GEntry { used: true, instant, timeout, id };
    unsafe {
        if G[0].is_none() {
            G[0] = Some(e);
        } else if G[1].is_none() {
            G[1] = Some(e);
        } else {
            kani::assume(false); // more than two deadlines: outside the bound
        }
    }
}
fn g_remove(_s: &mut StunMessageTimeout, id: &TransactionId) {
    unsafe {
        if let Some(e) = G[0] {
            if e.id == *id {
                G[0] = None;
            }
        }
        if let Some(e) = G[1] {
            if e.id == *id {
                G[1] = None;
            }
        }
    }
}
fn g_min() -> Option<GEntry> {
    unsafe {
        match (G[0], G[1]) {
            (None, None) => None,
            (Some(a), None) => Some(a),
            (None, Some(b)) => Some(b),
            (Some(a), Some(b)) => {
                if g_exp(&a) <= g_exp(&b) {
                    Some(a)
                } else {
                    Some(b)
                }
            }
        }
    }
}
fn g_next_timeout(_s: &mut StunMessageTimeout, instant: Instant) -> Option<(TransactionId, Duration)> {
    match g_min() {
        None => None,
        Some(e) => {
            let exp = g_exp(&e);
            Some((e.id, if exp > instant { exp - instant } else { Duration::ZERO }))
        }
    }
}
fn g_check(_s: &mut StunMessageTimeout, instant: Instant) -> Vec<TransactionId> {
    let mut v = Vec::new();
    unsafe {
        // slot order = deadline order is not needed by the client: it handles each id alone
        let mut i = 0;
        while i < 2 {
            if let Some(e) = G[i] {
                let due = g_exp(&e) <= instant;
                kani::assume(due == DUE[i]);
                if DUE[i] {
                    v.push(e.id);
                    G[i] = None;
                }
            }
            i += 1;
        }
    }
    v
}
fn g_count() -> usize {
    unsafe { G[0].is_some() as usize + G[1].is_some() as usize }
}
fn g_has(id: TransactionId) -> bool {
    unsafe { matches!(G[0], Some(e) if e.id == id) || matches!(G[1], Some(e) if e.id == id) }
}
fn g_entry(id: TransactionId) -> Option<GEntry> {
    unsafe {
        if let Some(e) = G[0] {
            if e.id == id {
                return Some(e);
            }
        }
        if let Some(e) = G[1] {
            if e.id == id {
                return Some(e);
            }
        }
        None
    }
}

// ------------------------------------------------------------------------------------------
// contract model of RtoManager::next_rto (verified on the real code by the C06 kernel harnesses):
// Some(positive interval) or None.  The answer for the n-th call of a step is chosen by the harness.
// ------------------------------------------------------------------------------------------
static mut RTO_ANS: [Option<Duration>; 3] = [None, None, None];
static mut RTO_CALLS: usize = 0;
fn g_next_rto(_s: &mut RtoManager, _instant: Instant) -> Option<Duration> {
    unsafe {
        let a = RTO_ANS[if RTO_CALLS < 3 { RTO_CALLS } else { 2 }];
        RTO_CALLS += 1;
        a
    }
}
fn any_rto_answer() -> Option<Duration> {
    if kani::any() {
        let s: u8 = kani::any();
        let n: u32 = kani::any();
        kani::assume(s < 60 && n < 1_000_000_000 && (s > 0 || n > 0));
        Some(Duration::new(s as u64, n))
    } else {
        None
    }
}

// RTT estimator: recording stub (its arithmetic is the C15 kernel's business)
static mut RTT_SAMPLES: u8 = 0;
static mut RTT_LAST: Duration = Duration::ZERO;
static mut RTT_RESETS: u8 = 0;
fn g_rtt_update(_s: &mut crate::rtt::RttCalcuator, r: Duration) {
    unsafe {
        RTT_SAMPLES += 1;
        RTT_LAST = r;
    }
}
fn g_rtt_reset(_s: &mut crate::rtt::RttCalcuator) {
    unsafe {
        RTT_RESETS += 1;
    }
}

// ------------------------------------------------------------------------------------------
// set-up
// ------------------------------------------------------------------------------------------
const MECH_NONE: u8 = 0;
const MECH_ST: u8 = 1;
const MECH_LT: u8 = 2;

fn mk_client(reliable: bool, mech: u8, fp: bool, limit: usize) -> Option<StunClient> {
    let rel = if reliable {
        TransportReliability::Reliable(Duration::from_secs(5))
    } else {
        TransportReliability::Unreliable(RttConfig::default())
    };
    let mut b = StunClienteBuilder::new(rel).with_max_transactions(limit);
    if mech == MECH_ST {
        b = b.with_mechanism("u", "p", CredentialMechanism::ShortTerm(None));
    } else if mech == MECH_LT {
        b = b.with_mechanism("u", "p", CredentialMechanism::LongTerm);
    }
    if fp {
        b = b.with_fingerprint();
    }
    match b.build() {
        Ok(c) => Some(c),
        Err(_) => None,
    }
}

struct Live {
    id: TransactionId,
    token: u32,
    sent: Option<Instant>,
}

const T0_SEC: i64 = 1000;

/// K live transactions through the public API, then havoc of what later operations may change.
fn setup<const K: usize>(client: &mut StunClient, live: &mut [Option<Live>; 2]) -> Instant {
    let t0 = instant_at(T0_SEC, 0);
    unsafe {
        RTO_CALLS = 0;
        RTO_ANS = [Some(Duration::from_secs(3)), Some(Duration::from_secs(3)), Some(Duration::from_secs(3))];
        ENV.encode_fails = false;
        AENV.prepare_fails = false;
    }
    let mut i = 0;
    while i < K {
        let r = client.send_request(stun_rs::MessageMethod(1), StunAttributes::default(), vec![0u8; 20], t0);
        let ev = client.events();
        std::mem::forget(ev);
        match r {
            Ok(id) => {
                let tok = unsafe { NEXT_PKT };
                live[i] = Some(Live { id, token: tok, sent: Some(t0) });
            }
            Err(e) => {
                std::mem::forget(e);
                kani::assume(false);
            }
        }
        i += 1;
    }
    // havoc: a transaction may have been retransmitted (send instant cleared) and its queue entry
    // may carry any (instant, timeout)
    let mut i = 0;
    while i < K {
        if let Some(l) = &mut live[i] {
            if kani::any() {
                l.sent = None;
                if let Some(t) = client.transactions.get_mut(&l.id) {
                    t.instant = None;
                }
            }
            unsafe {
                let mut k = 0;
                while k < 2 {
                    if let Some(e) = &mut G[k] {
                        if e.id == l.id {
                            e.instant = t0 + any_offset(20);
                            e.timeout = any_offset(40);
                        }
                    }
                    k += 1;
                }
            }
        }
        i += 1;
    }
    unsafe {
        RTO_CALLS = 0;
        RTT_SAMPLES = 0;
        RTT_RESETS = 0;
        AENV.mech_recv_calls = 0;
        AENV.fp_calls = 0;
    }
    rec_reset();
    t0
}

fn nrec() -> usize {
    unsafe { NREC }
}
fn rec(i: usize) -> Rec {
    unsafe { REC[i] }
}
/// number of committed events (length only: the contents are observed through the recording push)
fn committed(client: &mut StunClient) -> usize {
    let ev = client.events();
    let n = ev.len();
    std::mem::forget(ev);
    n
}

/// Inv: table ids == queue ids
fn inv(client: &mut StunClient, ids: &[TransactionId]) {
    assert!(client.transactions.len() == g_count(), "Inv: one deadline per outstanding request");
    let mut i = 0;
    while i < ids.len() {
        assert!(client.transactions.contains_key(&ids[i]) == g_has(ids[i]), "Inv: table and queue name the same ids");
        i += 1;
    }
}

macro_rules! glue {
    ($(#[$m:meta])* fn $name:ident() $body:block) => {
        #[kani::proof]
        #[kani::unwind(5)]
        #[kani::stub(alloc::fmt::format, nofmt)]
        #[kani::stub(std::time::Instant::checked_duration_since, cds_nonrecursive)]
        #[kani::stub(StunMessageTimeout::add, g_add)]
        #[kani::stub(StunMessageTimeout::remove, g_remove)]
        #[kani::stub(StunMessageTimeout::next_timeout, g_next_timeout)]
        #[kani::stub(StunMessageTimeout::check, g_check)]
        #[kani::stub(RtoManager::next_rto, g_next_rto)]
        #[kani::stub(crate::rtt::RttCalcuator::update, g_rtt_update)]
        #[kani::stub(crate::rtt::RttCalcuator::reset, g_rtt_reset)]
        #[kani::stub(crate::events::TransactionEvents::push, crate::events::verif_events::g_push)]
        $(#[$m])*
        fn $name() $body
    };
}

// ==========================================================================================
// induction base: a fresh client satisfies Inv and is silent
// ==========================================================================================
glue! {
fn glue_base() {
    let mut client = match mk_client(kani::any(), MECH_NONE, kani::any(), 2) { Some(c) => c, None => return };
    assert!(client.transactions.len() == 0 && g_count() == 0);
    assert!(committed(&mut client) == 0);
    std::mem::forget(client);
}
}

// ==========================================================================================
// on_timeout, one live transaction
//   DUE0 = false: nothing happens to the transaction; exactly one notification (C11)
//   DUE0 = true : Some(rto) -> same packet again, Karn flag cleared, re-queued (t, rto), one
//                 notification with the queue's answer; None -> exactly one TransactionFailed,
//                 the transaction leaves table and queue (C05/C12), no notification (C11)
// ==========================================================================================
fn step_timeout_k1<const DUE0: bool, const MECH: u8, const RELIABLE: bool>() {
    let mut client = match mk_client(RELIABLE, MECH, false, 2) { Some(c) => c, None => return };
    let mut live: [Option<Live>; 2] = [None, None];
    let t0 = setup::<1>(&mut client, &mut live);
    let l = match &live[0] { Some(l) => Live { id: l.id, token: l.token, sent: l.sent }, None => return };
    let pre_entry = match g_entry(l.id) { Some(e) => e, None => { assert!(false); return; } };
    unsafe {
        DUE = [DUE0, false];
        // the single entry sits in slot 0
        RTO_ANS[0] = any_rto_answer();
        AENV.violated_marker = kani::any();
        AENV.marker_calls = 0;
    }
    // the mechanism's marker ("a response of this request failed its integrity check") before the call;
    // the query that reads it consumes it, as the real TransportIntegrity does
    let marker = unsafe { AENV.violated_marker };
    let t = t0 + any_offset(70);
    client.on_timeout(t);
    let n = committed(&mut client);
    assert!(n == nrec(), "events: every pushed event is committed");
    let ans = unsafe { RTO_ANS[0] };
    // (that the marker survives intermediate timer calls is decided on observed behaviour by the
    // two-step query glue_timeout_two_steps_*: an implementation may read the mechanism's marker early
    // as long as the final outcome is right)
    if !DUE0 {
        assert!(unsafe { RTO_CALLS } == 0, "C06: no schedule step before the deadline");
        assert!(client.transactions.len() == 1 && g_count() == 1);
        assert!(n == 1, "C11: exactly one notification while a request is outstanding");
        let r0 = rec(0);
        assert!(r0.kind == K_NOTE, "C05/C11: only a timer notification may be emitted");
        assert!(r0.id == l.id, "C11: names the outstanding request");
        let exp = g_exp(&pre_entry);
        assert!(r0.dur == exp - t, "C11: time remaining until its deadline");
        match client.transactions.get_mut(&l.id) {
            Some(tr) => assert!(tr.instant == l.sent && tr.packet.token == l.token, "C17-like: untouched"),
            None => assert!(false),
        }
    } else {
        assert!(unsafe { RTO_CALLS } == 1, "C06: exactly one schedule step per expired deadline");
        match ans {
            Some(rto) => {
                assert!(n == 2, "C06/C11: one retransmission and one notification");
                let (r0, r1) = (rec(0), rec(1));
                assert!(r0.kind == K_OUTPUT && r0.token == l.token, "C06/C13: the retransmission is the packet first sent");
                assert!(r1.kind == K_NOTE && r1.id == l.id && r1.dur == rto, "C11: next deadline = now + the schedule's interval");
                assert!(client.transactions.len() == 1, "C05: still awaiting a response");
                match client.transactions.get_mut(&l.id) {
                    Some(tr) => assert!(tr.instant.is_none(), "C15: Karn — no RTT sample from a retransmitted request"),
                    None => assert!(false),
                }
                match g_entry(l.id) {
                    Some(e) => assert!(e.instant == t && e.timeout == rto, "C06: re-queued at (now, interval)"),
                    None => assert!(false, "Inv: deadline missing"),
                }
                kani::cover!(true);
            }
            None => {
                assert!(n == 1, "C05/C11: exactly one final outcome and no notification when nothing is outstanding");
                let r0 = rec(0);
                assert!(r0.kind == K_FAILED && r0.id == l.id, "C06: the request must be reported as failed");
                let violated = MECH != MECH_NONE && marker;
                if violated {
                    assert!(r0.why == W_VIOLATED, "C07: the marker turns the time-out into protection-violated");
                } else {
                    assert!(r0.why == W_TIMEDOUT);
                }
                assert!(!client.transactions.contains_key(&l.id), "C05/C12: a failed request leaves the table (frees its slot, late responses are discarded)");
                assert!(g_count() == 0);
                kani::cover!(true);
            }
        }
    }
    inv(&mut client, &[l.id]);
    std::mem::forget(client);
}
// ==========================================================================================
// C07 / C17: the protection-violated marker across an intermediate timer call (two steps, observed
// behaviour only).  One live request on unreliable transport with a mechanism; the mechanism model's
// marker ("a response of this request failed its integrity check") is arbitrary and, like the real
// TransportIntegrity, is consumed by the query that reads it.  First timer call: the deadline is due
// and the schedule answers Some(interval) (a retransmission); second timer call: due again, the
// schedule answers None (final time-out).  Whatever the client does in between, the failure must be
// reported as protection-violated exactly when the marker was set.
// ==========================================================================================
fn timeout_two_steps<const MECH: u8>() {
    let mut client = match mk_client(false, MECH, false, 2) { Some(c) => c, None => return };
    let mut live: [Option<Live>; 2] = [None, None];
    let t0 = setup::<1>(&mut client, &mut live);
    let l = match &live[0] { Some(l) => Live { id: l.id, token: l.token, sent: l.sent }, None => return };
    let marker: bool = kani::any();
    unsafe {
        DUE = [true, true];
        RTO_ANS[0] = Some(Duration::from_millis(500));
        RTO_ANS[1] = None;
        AENV.violated_marker = marker;
        AENV.marker_calls = 0;
    }
    let t1 = t0 + any_offset(70);
    client.on_timeout(t1);
    let n1 = committed(&mut client);
    assert!(n1 == 2 && rec(0).kind == K_OUTPUT && rec(1).kind == K_NOTE, "C06: the first expiry is a retransmission");
    assert!(client.transactions.contains_key(&l.id));
    let t2 = t1 + any_offset(70);
    rec_reset();
    client.on_timeout(t2);
    let n2 = committed(&mut client);
    assert!(n2 == 1, "C05: exactly one final outcome");
    let r0 = rec(0);
    assert!(r0.kind == K_FAILED && r0.id == l.id, "C06: the request fails at its final deadline");
    if MECH != MECH_NONE && marker {
        assert!(r0.why == W_VIOLATED, "C07: a request one of whose responses failed the integrity check ends as protection-violated, however many timer calls lie in between");
    } else {
        assert!(r0.why == W_TIMEDOUT);
    }
    assert!(!client.transactions.contains_key(&l.id) && g_count() == 0);
    kani::cover!(marker);
    std::mem::forget(client);
}
glue! { fn glue_timeout_two_steps_st() { timeout_two_steps::<MECH_ST>(); } }
glue! { fn glue_timeout_two_steps_lt() { timeout_two_steps::<MECH_LT>(); } }

glue! { fn glue_timeout_k1_notdue() { step_timeout_k1::<false, MECH_NONE, false>(); } }
glue! { fn glue_timeout_k1_due_unreliable() { step_timeout_k1::<true, MECH_NONE, false>(); } }
glue! { fn glue_timeout_k1_due_reliable() { step_timeout_k1::<true, MECH_NONE, true>(); } }
glue! { fn glue_timeout_k1_due_st() { step_timeout_k1::<true, MECH_ST, false>(); } }
glue! { fn glue_timeout_k1_due_lt() { step_timeout_k1::<true, MECH_LT, false>(); } }

// ==========================================================================================
// on_timeout, two live transactions, any subset due
// ==========================================================================================
fn step_timeout_k2<const DUE0: bool, const DUE1: bool>() {
    let mut client = match mk_client(false, MECH_NONE, false, 3) { Some(c) => c, None => return };
    let mut live: [Option<Live>; 2] = [None, None];
    let t0 = setup::<2>(&mut client, &mut live);
    let (a, b) = match (&live[0], &live[1]) {
        (Some(a), Some(b)) => (Live { id: a.id, token: a.token, sent: a.sent }, Live { id: b.id, token: b.token, sent: b.sent }),
        _ => return,
    };
    assert!(a.id != b.id);
    // slot i holds transaction i (set-up order)
    unsafe {
        DUE = [DUE0, DUE1];
        RTO_ANS[0] = any_rto_answer();
        RTO_ANS[1] = any_rto_answer();
    }
    let t = t0 + any_offset(70);
    client.on_timeout(t);
    let n = committed(&mut client);
    assert!(n == nrec());
    let ndue = DUE0 as usize + DUE1 as usize;
    assert!(unsafe { RTO_CALLS } == ndue, "C06: one schedule step per expired deadline");
    // answers are consumed in pop order: slot 0 first
    let ans_a = if DUE0 { unsafe { RTO_ANS[0] } } else { Some(Duration::ZERO) };
    let ans_b = if DUE1 { unsafe { RTO_ANS[if DUE0 { 1 } else { 0 }] } } else { Some(Duration::ZERO) };
    let a_alive = !DUE0 || ans_a.is_some();
    let b_alive = !DUE1 || ans_b.is_some();
    assert!(client.transactions.contains_key(&a.id) == a_alive, "C05/C12: table holds exactly the unfinished requests");
    assert!(client.transactions.contains_key(&b.id) == b_alive, "C05/C12: table holds exactly the unfinished requests");
    let outstanding = a_alive as usize + b_alive as usize;
    assert!(n == ndue + (outstanding > 0) as usize, "C05/C11: one event per expired deadline plus one notification iff something is outstanding");
    if n > 0 {
        let last = rec(n - 1);
        assert!((last.kind == K_NOTE) == (outstanding > 0), "C11: the notification is the last event, present iff a request is outstanding");
    }
    if DUE0 {
        let r0 = rec(0);
        match ans_a {
            Some(_) => assert!(r0.kind == K_OUTPUT && r0.token == a.token, "C06: retransmission of the first expired request"),
            None => assert!(r0.kind == K_FAILED && r0.id == a.id, "C05/C06: failure of the first expired request"),
        }
    }
    if DUE1 {
        let r1 = rec(DUE0 as usize);
        match ans_b {
            Some(_) => assert!(r1.kind == K_OUTPUT && r1.token == b.token, "C06: retransmission of the second expired request"),
            None => assert!(r1.kind == K_FAILED && r1.id == b.id, "C05/C06: failure of the second expired request"),
        }
    }
    if outstanding > 0 && n > 0 {
        let last = rec(n - 1);
        assert!((last.id == a.id && a_alive) || (last.id == b.id && b_alive), "C11: names an outstanding request");
        let e = match g_entry(last.id) { Some(e) => e, None => { assert!(false); return; } };
        let exp = g_exp(&e);
        assert!(last.dur == if exp > t { exp - t } else { Duration::ZERO });
        let other = if last.id == a.id { b.id } else { a.id };
        if let Some(o) = g_entry(other) {
            assert!(g_exp(&o) >= exp, "C11: earliest pending deadline");
        }
    }
    inv(&mut client, &[a.id, b.id]);
    kani::cover!(outstanding == 0);
    kani::cover!(outstanding == 2);
    std::mem::forget(client);
}
glue! { fn glue_timeout_k2_none_due() { step_timeout_k2::<false, false>(); } }
glue! { fn glue_timeout_k2_first_due() { step_timeout_k2::<true, false>(); } }
glue! { fn glue_timeout_k2_second_due() { step_timeout_k2::<false, true>(); } }
glue! { fn glue_timeout_k2_both_due() { step_timeout_k2::<true, true>(); } }

// ==========================================================================================
// send_request / send_indication from a state with K live transactions (C12, C11, C05)
// ==========================================================================================
/// REQ: request or indication; FULL: the limit equals the number of live requests (K) or is K + 1.
/// (limit, kind of message and transport are concrete per instance: with all of them symbolic the
/// query exceeded 20 GB.)
fn step_send<const K: usize, const MECH: u8, const REQ: bool, const FULL: bool>() {
    step_send_x::<K, MECH, REQ, FULL, false>();
}
/// OVERDUE: the first live request's deadline has already passed at the send instant and the timer
/// call for it has not happened yet (a late controller).  The queue model's due flag is only
/// consulted if the client asks the queue what expired; send_request / send_indication must not.
fn step_send_x<const K: usize, const MECH: u8, const REQ: bool, const FULL: bool, const OVERDUE: bool>() {
    let limit: usize = if FULL { K } else { K + 1 };
    let mut client = match mk_client(false, MECH, false, limit) { Some(c) => c, None => return };
    let mut live: [Option<Live>; 2] = [None, None];
    let t0 = setup::<K>(&mut client, &mut live);
    let mut ids = [TransactionId(0); 2];
    let mut i = 0;
    while i < K {
        if let Some(l) = &live[i] {
            ids[i] = l.id;
        }
        i += 1;
    }
    let pre_g = unsafe { G };
    let pre_pkt = unsafe { NEXT_PKT };
    unsafe {
        DUE = [OVERDUE, false];
        RTO_ANS[0] = Some(Duration::from_millis(500));
        RTO_ANS[1] = any_rto_answer();
        ENV.encode_fails = kani::any();
        AENV.prepare_fails = kani::any();
    }
    let is_req: bool = REQ;
    let t = t0 + any_offset(700);
    if OVERDUE && K > 0 {
        match g_entry(ids[0]) {
            Some(e) => kani::assume(g_exp(&e) <= t),
            None => {}
        }
        kani::cover!(true, "overdue state reachable");
    }
    let blen: usize = 20; // buffer sizes are concrete (symbolic allocation sizes are out of reach); a too-small buffer = ENV.encode_fails
    let r = if is_req {
        client.send_request(stun_rs::MessageMethod(1), StunAttributes::default(), vec![0u8; blen], t)
    } else {
        client.send_indication(stun_rs::MessageMethod(1), StunAttributes::default(), vec![0u8; blen])
    };
    let n = committed(&mut client);
    assert!(n == nrec());
    if is_req {
        let full = K >= limit;
        match &r {
            Err(StunAgentError::MaxOutstandingRequestsReached) => {
                assert!(full, "C12: refused only when the limit is reached");
                assert!(n == 0, "C12: a refused request produces no event");
                assert!(client.transactions.len() == K && unsafe { NEXT_PKT } == pre_pkt, "C12: and no other change");
                assert!(unsafe { RTO_CALLS } == 0 && g_count() == K, "C12/C06: a refused request leaves schedules and deadlines alone");
            }
            Err(_) => {
                assert!(!full, "C12: at the limit the error is MaxOutstandingRequestsReached");
                assert!(n == 0 && client.transactions.len() == K);
            }
            Ok(id) => {
                assert!(!full, "C12: no request beyond the limit");
                assert!(client.transactions.len() == K + 1 && client.transactions.contains_key(id));
                assert!(n == 2, "C11: packet + notification");
                let (r0, r1) = (rec(0), rec(1));
                assert!(r0.kind == K_OUTPUT && r0.token == pre_pkt + 1);
                assert!(r1.kind == K_NOTE, "C11: notification after sending a request");
                let e = match g_entry(r1.id) { Some(e) => e, None => { assert!(false); return; } };
                assert!(client.transactions.contains_key(&r1.id), "C11: names an outstanding request");
                let exp = g_exp(&e);
                assert!(r1.dur == if exp > t { exp - t } else { Duration::ZERO });
                match g_entry(*id) {
                    Some(e) => assert!(e.instant == t && e.timeout == Duration::from_millis(500), "C06: first deadline = send instant + first interval"),
                    None => assert!(false),
                }
                match client.transactions.get_mut(id) {
                    Some(tr) => assert!(tr.instant == Some(t)),
                    None => assert!(false),
                }
            }
        }
    } else {
        // indications never consume a slot and never touch the table or the queue
        assert!(client.transactions.len() == K, "C12: indications never consume a slot");
        assert!(g_count() == K);
        match &r {
            Ok(_) => {
                assert!(n == 1 && rec(0).kind == K_OUTPUT);
                assert!(MECH != MECH_LT, "C08: long-term credentials refuse indications");
            }
            Err(_) => assert!(n == 0),
        }
    }
    let _ = pre_g;
    inv(&mut client, &ids[..K]);
    std::mem::forget(r);
    std::mem::forget(client);
}
glue! { fn glue_send_k0_req() { step_send::<0, MECH_NONE, true, false>(); } }
glue! { fn glue_send_k0_req_full() { step_send::<0, MECH_NONE, true, true>(); } }
glue! { fn glue_send_k0_ind() { step_send::<0, MECH_NONE, false, false>(); } }
glue! { fn glue_send_k1_req() { step_send::<1, MECH_NONE, true, false>(); } }
glue! { fn glue_send_k1_req_full() { step_send::<1, MECH_NONE, true, true>(); } }
glue! { fn glue_send_k1_ind() { step_send::<1, MECH_NONE, false, true>(); } }
glue! { fn glue_send_k2_req_full() { step_send::<2, MECH_NONE, true, true>(); } }
glue! { fn glue_send_k1_req_full_overdue() { step_send_x::<1, MECH_NONE, true, true, true>(); } }
glue! { fn glue_send_k1_req_overdue() { step_send_x::<1, MECH_NONE, true, false, true>(); } }
glue! { fn glue_send_k1_lt_req() { step_send::<1, MECH_LT, true, false>(); } }
glue! { fn glue_send_k1_lt_ind() { step_send::<1, MECH_LT, false, false>(); } }

// ==========================================================================================
// on_buffer_recv from a state with K live transactions (C05, C10, C12, C15, C17)
// ==========================================================================================
fn any_class() -> MessageClass {
    let c: u8 = kani::any();
    kani::assume(c < 4);
    match c {
        0 => MessageClass::Request,
        1 => MessageClass::Indication,
        2 => MessageClass::SuccessResponse,
        _ => MessageClass::ErrorResponse,
    }
}
fn any_mech_verdict() -> Result<(), IntegrityError> {
    let v: u8 = kani::any();
    kani::assume(v < 5);
    match v {
        0 => Ok(()),
        1 => Err(IntegrityError::Discarded),
        2 => Err(IntegrityError::NotRetryable),
        3 => Err(IntegrityError::ProtectionViolated),
        _ => Err(IntegrityError::Retry),
    }
}

fn step_recv<const K: usize, const MECH: u8, const FP: bool>() {
    let mut client = match mk_client(false, MECH, FP, 3) { Some(c) => c, None => return };
    let mut live: [Option<Live>; 2] = [None, None];
    let t0 = setup::<K>(&mut client, &mut live);
    let mut ids = [TransactionId(200); 2];
    let mut sent = [None; 2];
    let mut i = 0;
    while i < K {
        if let Some(l) = &live[i] {
            ids[i] = l.id;
            sent[i] = l.sent;
        }
        i += 1;
    }
    // the environment: undecodable, or any class with the id of a live, finished or unknown request
    let decodable: bool = kani::any();
    let class = any_class();
    let which: u8 = kani::any();
    kani::assume(which < 3);
    let tid = if (which as usize) < K { ids[which as usize] } else { TransactionId(100 + which) };
    let is_live = (which as usize) < K;
    let fp: Result<bool, ()> = if kani::any() { Ok(kani::any()) } else { Err(()) };
    let verdict = any_mech_verdict();
    // contract of both real mechanisms (checked on their real code in C07/C08): an indication is
    // either accepted or discarded, never turned into a transaction outcome
    if class == MessageClass::Indication {
        kani::assume(matches!(verdict, Ok(()) | Err(IntegrityError::Discarded)));
    }
    unsafe {
        ENV.decode = if decodable { Some((class, tid)) } else { None };
        AENV.fp = fp;
        AENV.mech = verdict;
    }
    let pre_g = unsafe { G };
    let t = t0 + any_offset(700);
    let r = client.on_buffer_recv(&[0u8; 20], t);
    let n = committed(&mut client);
    assert!(n == nrec());

    // reference: is the buffer rejected?
    let rejected = !decodable
        || class == MessageClass::Request
        || (class != MessageClass::Indication && !is_live)
        || (FP && fp != Ok(true))
        || (MECH != MECH_NONE && verdict == Err(IntegrityError::Discarded));
    assert!(r.is_err() == rejected, "C05/C10/C17: a buffer is rejected exactly for the documented reasons");
    if rejected {
        // C17: nothing changes and no events
        assert!(n == 0, "C17: a rejected buffer produces no events");
        assert!(client.transactions.len() == K && g_count() == K, "C17: outstanding requests unchanged");
        let mut i = 0;
        while i < K {
            match client.transactions.get_mut(&ids[i]) {
                Some(tr) => assert!(tr.instant == sent[i], "C17: schedules / RTT bookkeeping unchanged"),
                None => assert!(false, "C17: outstanding request lost"),
            }
            let (a, b) = unsafe { (G[i], pre_g[i]) };
            match (a, b) {
                (Some(x), Some(y)) => assert!(x.id == y.id && x.instant == y.instant && x.timeout == y.timeout, "C17: deadlines unchanged"),
                _ => assert!(false),
            }
            i += 1;
        }
        assert!(unsafe { RTT_SAMPLES } == 0 && unsafe { RTT_RESETS } == 0, "C17: RTT estimate unchanged");
        // the mechanisms change their credential state / learned algorithm exactly when recv_message returns
        // something other than Discarded (decided on their real code: c07_recv_*, c08_recv_*); so a rejected
        // buffer must either not reach the mechanism or be discarded by it
        assert!(unsafe { AENV.mech_recv_calls } == 0 || verdict == Err(IntegrityError::Discarded), "C17: a rejected buffer leaves the credential state and the learned algorithm alone");
        if FP && fp != Ok(true) && decodable && class != MessageClass::Request && (class == MessageClass::Indication || is_live) {
            assert!(unsafe { AENV.mech_recv_calls } == 0, "C10: a message without a valid FINGERPRINT never reaches the credential mechanism");
        }
        kani::cover!(decodable && class == MessageClass::SuccessResponse && is_live);
    } else {
        assert!(n == 1, "C05: exactly one event for an accepted message");
        let mech_err = if MECH != MECH_NONE { verdict.err() } else { None };
        let r0 = rec(0);
        assert!(r0.id == tid, "C05: the event names the message's transaction");
        match mech_err {
            None => assert!(r0.kind == K_RECEIVED && r0.class == class, "C05: the message itself is delivered"),
            Some(IntegrityError::ProtectionViolated) => assert!(r0.kind == K_FAILED && r0.why == W_VIOLATED, "C07: protection violated"),
            Some(IntegrityError::NotRetryable) => assert!(r0.kind == K_FAILED && r0.why == W_DONOTRETRY, "C08: do not retry"),
            Some(IntegrityError::Retry) => assert!(r0.kind == K_RETRY, "C08: retry instruction"),
            Some(IntegrityError::Discarded) => assert!(false, "C17: a discarded message is a rejection"),
        }
        if class == MessageClass::Indication {
            assert!(client.transactions.len() == K && g_count() == K, "C12: indications never change the outstanding set");
            assert!(unsafe { RTT_SAMPLES } == 0);
        } else {
            // a response: final outcome for a live request -> it leaves table and queue
            assert!(is_live, "C05: a response is only delivered for a transaction still awaiting one");
            assert!(!client.transactions.contains_key(&tid) && !g_has(tid), "C05/C12: the final outcome frees the slot and the deadline");
            assert!(client.transactions.len() == K.wrapping_sub(1) && g_count() == K.wrapping_sub(1), "C12: exactly one slot freed");
            // C15: a sample iff the request was never retransmitted; sample = now - sent
            let s = sent[which as usize];
            match s {
                Some(at) => {
                    assert!(unsafe { RTT_SAMPLES } == 1 && unsafe { RTT_LAST } == t - at, "C15: RTT sample = response time of a never-retransmitted request");
                }
                None => assert!(unsafe { RTT_SAMPLES } == 0, "C15: Karn — no sample from a retransmitted request"),
            }
            kani::cover!(s.is_none());
            kani::cover!(s.is_some());
        }
        if FP {
            assert!(fp == Ok(true), "C10: accepted only with a valid FINGERPRINT");
        }
    }
    inv(&mut client, &ids[..K]);
    std::mem::forget(r);
    std::mem::forget(client);
}
glue! { fn glue_recv_k0() { step_recv::<0, MECH_NONE, false>(); } }
glue! { fn glue_recv_k1() { step_recv::<1, MECH_NONE, false>(); } }
glue! { fn glue_recv_k1_fp() { step_recv::<1, MECH_NONE, true>(); } }
glue! { fn glue_recv_k1_st() { step_recv::<1, MECH_ST, false>(); } }
glue! { fn glue_recv_k1_st_fp() { step_recv::<1, MECH_ST, true>(); } }
glue! { fn glue_recv_k1_lt() { step_recv::<1, MECH_LT, false>(); } }
glue! { fn glue_recv_k2() { step_recv::<2, MECH_NONE, false>(); } }
glue! { fn glue_recv_k2_st_fp() { step_recv::<2, MECH_ST, true>(); } }

// ==========================================================================================
// C15 (client side): the estimate is reset iff more than 600 s passed since the previous request
// ==========================================================================================
glue! {
fn glue_rtt_staleness() {
    let mut client = match mk_client(false, MECH_NONE, false, 3) { Some(c) => c, None => return };
    let t0 = instant_at(T0_SEC, 0);
    unsafe {
        RTO_CALLS = 0;
        RTO_ANS = [Some(Duration::from_secs(3)), Some(Duration::from_secs(3)), Some(Duration::from_secs(3))];
        RTT_RESETS = 0;
    }
    let r1 = client.send_request(stun_rs::MessageMethod(1), StunAttributes::default(), vec![0u8; 20], t0);
    let ev = client.events();
    std::mem::forget(ev);
    if r1.is_err() { std::mem::forget(r1); return; }
    assert!(unsafe { RTT_RESETS } == 0);
    let gap = any_offset(1300);
    let r2 = client.send_request(stun_rs::MessageMethod(1), StunAttributes::default(), vec![0u8; 20], t0 + gap);
    let ev = client.events();
    std::mem::forget(ev);
    if r2.is_ok() {
        let stale = gap > Duration::from_secs(600);
        assert!((unsafe { RTT_RESETS } == 1) == stale, "C15: back to the configured value iff more than ten minutes between consecutive requests");
        kani::cover!(stale);
        kani::cover!(!stale);
    }
    std::mem::forget(r1);
    std::mem::forget(r2);
    std::mem::forget(client);
}
}
