"""Driver for the solver-based checks of sancane/rustun (see /verif/DESIGN.md §1.4).

A check = copy /repo's working tree to a private scratch dir, inject the harness modules from
/verif/harness into the copy, run `cargo kani` (CBMC + SAT) once per harness, parse the verdicts,
replay counterexamples natively, write /verif/evidence/<ID>.json.

Exit codes: 0 property held on every query; 1 a VIOLATION line was printed; 2 inconclusive
(harness does not build, time/memory cap hit, counterexample did not reproduce).
"""
import concurrent.futures as cf
import json
import os
import re
import resource
import shutil
import signal
import subprocess
import sys
import threading
import time

VERIF = os.path.abspath(os.path.join(os.path.dirname(__file__), "..", ".."))
REPO = os.environ.get("VERIF_REPO", "/repo")
CACHE = os.path.join(VERIF, ".cache")
FEATURES = "turn,ice,discovery,mobility"  # "experiments" (custom/random padding) pulls rand into the encode path: Kani compiler ICE

# ---------------------------------------------------------------------------------------------
# Where harness modules are injected.  key = build name, value = (crate dir relative to the
# scratch copy, [(anchor source file, harness file under /verif/harness/<build>/)], features)
# ---------------------------------------------------------------------------------------------
BUILDS = {
    "stunrs": {
        "dir": "stun-rs",
        "features": FEATURES,
        "inject": [
            ("src/context.rs", "verif_context.rs"),
            ("src/context.rs", "verif_context_unit.rs"),
            ("src/raw.rs", "verif_raw.rs"),
            ("src/lib.rs", "verif_lib.rs"),
            ("src/lib.rs", "verif_attrs.rs"),
            ("src/lib.rs", "verif_wire.rs"),
            ("src/lib.rs", "verif_values.rs"),
            ("src/lib.rs", "verif_msg.rs"),
            ("src/strings.rs", "verif_strings.rs"),
            ("src/attributes/stun/nonce.rs", "verif_nonce.rs"),
        ],
    },
    "agent": {
        "dir": "stun-agent",
        "features": None,
        "inject": [
            ("src/timeout.rs", "verif_timeout.rs"),
            ("src/rtt.rs", "verif_rtt.rs"),
            ("src/lib.rs", "verif_lib.rs"),
            ("src/message.rs", "verif_message.rs"),
        ],
    },
    # agent-slice: real agent sources compiled against the environment model of stun-rs
    "slice": {"dir": "../agent-slice", "features": None, "inject": []},
    # agentshim: the WHOLE real stun-agent crate compiled against the environment model of stun-rs
    "agentshim": {
        "dir": "../agent-shim",
        "features": None,
        "inject": [
            ("src/st_cred_mech.rs", "verif_st.rs"),
            ("src/lt_cred_mech.rs", "verif_lt.rs"),
            ("src/message.rs", "verif_message.rs"),
            ("src/lib.rs", "verif_iter.rs"),
        ],
    },
}


class Harness:
    """One solver query."""

    def __init__(self, build, name, tier="quick", timeout=600, mem_gb=8, covers=None,
                 bounds="", funcs=(), stubs=(), expect_fail=False, finding=None, playback=True,
                 sample=None):
        self.build = build
        self.name = name              # fully qualified harness path, matched with --exact
        self.tier = tier              # "quick" runs in both tiers, "thorough" only in thorough
        self.timeout = timeout
        self.mem_gb = mem_gb
        self.covers = covers          # number of kani::cover! witnesses that must be SATISFIED
        self.bounds = bounds
        self.funcs = list(funcs)
        self.stubs = list(stubs)
        self.expect_fail = expect_fail  # known-finding twin: asserts exactly the listed role
        self.finding = finding          # key into known_findings.json
        self.playback = playback        # Kani concrete playback is a faithful native replay
        self.sample = sample


class Scratch:
    def __init__(self, prop):
        base = os.environ.get("VERIF_SCRATCH") or "/var/tmp/rustun-verif.%s.%d" % (prop, os.getpid())
        self.base = base
        self.src = os.path.join(base, "src")
        self.lock = threading.Lock()
        self.tgt_free = {}   # build -> list of idle target dirs
        self.tgt_n = 0

    def create(self):
        if os.environ.get("VERIF_DEV"):
            # development loop: keep the target dirs of the previous run
            shutil.rmtree(self.src, ignore_errors=True)
            shutil.rmtree(os.path.join(self.base, "agent-slice"), ignore_errors=True)
            os.makedirs(self.base, exist_ok=True)
        else:
            shutil.rmtree(self.base, ignore_errors=True)
            os.makedirs(self.base)
        subprocess.check_call(["rsync", "-a", "--exclude", "/target", "--exclude", ".git",
                               REPO + "/", self.src + "/"])

    def destroy(self):
        if os.environ.get("VERIF_KEEP") or os.environ.get("VERIF_DEV"):
            print("scratch kept at", self.base)
            return
        shutil.rmtree(self.base, ignore_errors=True)

    def template(self, build):
        for cand in (os.path.join(self.base, "tpl_" + build), os.path.join(CACHE, "tgt-" + build)):
            if os.path.isdir(cand):
                return cand
        return None

    def get_tgt(self, build):
        with self.lock:
            lst = self.tgt_free.setdefault(build, [])
            if lst:
                return lst.pop()
            self.tgt_n += 1
            t = os.path.join(self.base, "tgt_%s_%d" % (build, self.tgt_n))
        tpl = None if getattr(self, "no_template", False) else self.template(build)
        if tpl and not os.path.isdir(t):
            subprocess.call(["cp", "-a", "--reflink=auto", tpl, t])
        return t

    def make_template(self, build):
        """after a first from-scratch build: clone its target dir for the other workers"""
        with self.lock:
            lst = self.tgt_free.get(build) or []
            if not lst:
                return
            t = lst[0]
        subprocess.call(["cp", "-a", "--reflink=auto", t, os.path.join(self.base, "tpl_" + build)])

    def put_tgt(self, build, t):
        with self.lock:
            self.tgt_free.setdefault(build, []).append(t)


def load_known_findings():
    with open(os.path.join(VERIF, "known_findings.json")) as f:
        return json.load(f)


def open_findings(prop=None):
    return [e for e in load_known_findings()["findings"]
            if e.get("status") == "open" and (prop is None or e["property"] == prop)]


def write_cfg_rs(path, native=False):
    """verif_cfg.rs: one `pub const KF_<KEY>: bool` per entry of known_findings.json.  The file
    is authoritative: an exclusion exists in a harness only while its entry is listed as open."""
    kf = load_known_findings()
    lines = ["// generated by /verif/lib/rv/driver.py from known_findings.json", "#![allow(dead_code)]"]
    for e in kf["findings"]:
        lines.append("pub const KF_%s: bool = %s;" % (e["key"].upper(), "true" if e.get("status") == "open" else "false"))
    # NATIVE_REPLAY: true only in the concrete-playback build; harnesses that bypass a validating
    # constructor under the solver go through the real constructor when replayed natively
    lines.append("pub const NATIVE_REPLAY: bool = %s;" % ("true" if native else "false"))
    with open(path, "w") as f:
        f.write("\n".join(lines) + "\n")


def gen_registry_stub(src_root):
    """registry_from_source: if-chain generated from the `registry.register::<X>()` lines of the
    copied source (DESIGN §1.2)."""
    attrs = os.path.join(src_root, "stun-rs", "src", "attributes")
    entries = []
    for mod, feat in (("stun", None), ("ice", "ice"), ("turn", "turn"), ("mobility", "mobility"),
                      ("discovery", "discovery")):
        p = os.path.join(attrs, mod + ".rs")
        if not os.path.exists(p):
            continue
        txt = open(p).read()
        for m in re.finditer(r"register::<\s*([A-Za-z0-9_:]+)\s*>\s*\(\s*\)", txt):
            name = m.group(1).split("::")[-1]
            entries.append((mod, name, feat))
    out = ["// generated from the register::<X>() lines of the copied source",
           "#![allow(dead_code, unused_imports)]",
           "use crate::attributes::{AttributeType, DecodeAttributeValue, StunAttribute};",
           "use crate::context::AttributeDecoderContext;",
           "use crate::registry::DecoderHandler;",
           "use crate::{StunAttributeType, StunError};",
           "pub const REGISTERED: usize = %d;" % len(entries)]
    for i, (mod, name, feat) in enumerate(entries):
        out.append("fn h%d(ctx: AttributeDecoderContext) -> Result<(StunAttribute, usize), StunError> {" % i)
        out.append("    let (v, s) = <crate::attributes::%s::%s as DecodeAttributeValue>::decode(ctx)?; Ok((v.into(), s)) }" % (mod, name))
        out.append("static H%d: DecoderHandler = h%d;" % (i, i))
    out.append("pub fn registry_from_source(t: AttributeType) -> Option<&'static DecoderHandler> {")
    for i, (mod, name, feat) in enumerate(entries):
        out.append("    if t == <crate::attributes::%s::%s as StunAttributeType>::get_type() { return Some(&H%d); }" % (mod, name, i))
    out.append("    None\n}")
    out.append("pub fn registered_type(i: usize) -> u16 {\n    match i {")
    for i, (mod, name, feat) in enumerate(entries):
        out.append("        %d => <crate::attributes::%s::%s as StunAttributeType>::get_type().as_u16()," % (i, mod, name))
    out.append("        _ => 0,\n    }\n}")
    return "\n".join(out) + "\n", [n for _, n, _ in entries]


def inject(scratch, builds):
    """Copy harness files next to their anchor file and append the cfg(kani) child module."""
    info = {}
    # the builds that COPY agent sources (slice, agentshim) are assembled first, from the pristine
    # copy of the working tree, before harness modules are appended to those sources for `agent`
    builds = sorted(builds, key=lambda b: 0 if b in ("slice", "agentshim") else 1)
    for b in builds:
        spec = BUILDS[b]
        if b == "slice":
            from . import slice_build
            info["slice"] = slice_build.assemble(scratch, VERIF)
            continue
        if b == "agentshim":
            from . import slice_build
            info["agentshim"] = slice_build.assemble_agentshim(scratch, VERIF)
        cdir = os.path.normpath(os.path.join(scratch.src, spec["dir"]))
        hdir = os.path.join(VERIF, "harness", b)
        # stun-rs harness modules need the feature-gated kinds: keep them out when the same copy of
        # stun-rs is compiled (without features) as a dependency of the `agent` build
        cfgs = "kani" if not spec["features"] else "all(kani, %s)" % ", ".join('feature = "%s"' % f for f in spec["features"].split(","))
        for anchor, hf in spec["inject"]:
            src = os.path.join(hdir, hf)
            if not os.path.exists(src):
                continue
            apath = os.path.join(cdir, anchor)
            ddir = os.path.dirname(apath)
            shutil.copy(src, os.path.join(ddir, hf))
            mod = hf[:-3]
            with open(apath, "a") as f:
                f.write('\n#[cfg(%s)]\n#[path = "%s"]\npub(crate) mod %s;\n' % (cfgs, hf, mod))
        # shared support files live in src/ (crate root) and are `#[path]`-included by harnesses
        sdir = os.path.join(cdir, "src")
        supports = []
        for extra in sorted(os.listdir(hdir)):
            if extra.startswith("support_"):
                shutil.copy(os.path.join(hdir, extra), os.path.join(sdir, extra))
                supports.append(extra)
        write_cfg_rs(os.path.join(sdir, "verif_cfg.rs"))
        if b == "stunrs":
            txt, names = gen_registry_stub(scratch.src)
            with open(os.path.join(sdir, "verif_registry.rs"), "w") as f:
                f.write(txt)
            info["registry"] = names
        with open(os.path.join(cdir, "src", "lib.rs"), "a") as f:
            f.write('\n#[cfg(%s)]\n#[path = "verif_cfg.rs"]\npub(crate) mod verif_cfg;\n' % cfgs)
            for sp in supports:
                f.write('#[cfg(%s)]\n#[path = "%s"]\npub(crate) mod %s;\n' % (cfgs, sp, sp[:-3]))
            if b == "stunrs":
                f.write('#[cfg(%s)]\n#[path = "verif_registry.rs"]\npub(crate) mod verif_registry;\n' % cfgs)
    return info


def _limits(mem_gb):
    def f():
        os.setsid()
        lim = int(mem_gb * (1 << 30))
        resource.setrlimit(resource.RLIMIT_AS, (lim, lim))
    return f


_INJECTED = {}
RE_NOISE = re.compile(r"^(Unwinding|aborting|Not unwinding|Skipping|\s*$)")


def run_kani(scratch, h, extra=(), timeout=None, logname=None):
    spec = BUILDS[h.build]
    cdir = os.path.normpath(os.path.join(scratch.src, spec["dir"]))
    tgt = scratch.get_tgt(h.build)
    cmd = ["cargo", "kani", "-Z", "stubbing", "--harness", h.name, "--exact", "--target-dir", tgt,
           "--output-format", "terse"]
    if spec["features"]:
        cmd += ["--features", spec["features"]]
    cmd += list(extra)
    env = dict(os.environ, CARGO_NET_OFFLINE="true", CARGO_TERM_COLOR="never")
    env.pop("RUSTFLAGS", None)
    logdir = os.path.join(scratch.base, "logs")
    os.makedirs(logdir, exist_ok=True)
    logpath = os.path.join(logdir, (logname or h.name.replace("::", "__")) + ".log")
    t0 = time.time()
    timed_out = False
    guard = [sys.executable, os.path.join(os.path.dirname(os.path.abspath(__file__)), "guard.py")]
    with open(logpath, "w") as lf:
        p = subprocess.Popen(guard + cmd, cwd=cdir, env=env, stdout=lf, stderr=subprocess.STDOUT,
                             preexec_fn=_limits(h.mem_gb + 8))
        try:
            p.wait(timeout=timeout or h.timeout)
        except subprocess.TimeoutExpired:
            timed_out = True
            try:
                os.kill(p.pid, signal.SIGTERM)   # the guard kills the command's process group
                try:
                    p.wait(timeout=10)
                except subprocess.TimeoutExpired:
                    pass
                os.killpg(p.pid, signal.SIGKILL)
            except ProcessLookupError:
                pass
            p.wait()
    wall = time.time() - t0
    scratch.put_tgt(h.build, tgt)
    lines = [l.rstrip("\n") for l in open(logpath, errors="replace") if not RE_NOISE.match(l)]
    res = parse_log(h, lines, wall, timed_out, p.returncode, logpath)
    # self-test hook of the driver (never set by the registered commands): VERIF_INJECT_TOOLFAIL="<substring>:<n>" turns the
    # first n passing results of matching queries into memory-model-only failures, to exercise the retry ladder
    inj = os.environ.get("VERIF_INJECT_TOOLFAIL")
    if inj and res["status"] == "pass":
        sub, _, n = inj.partition(":")
        if sub in h.name and _INJECTED.get(sub, 0) < int(n or 1):
            _INJECTED[sub] = _INJECTED.get(sub, 0) + 1
            res["status"] = "fail"
            res["failed_descriptions"] = ["rust_dealloc must be called on an object whose allocated size matches its layout", "dereference failure: pointer NULL"]
            res["checks_failed"] = 2
    return res


def parse_log(h, lines, wall, timed_out, rc, logpath):
    txt = "\n".join(lines)
    r = {"harness": h.name, "wall_s": round(wall, 2), "log": logpath, "status": None,
         "checks_total": 0, "checks_failed": 0, "failed_descriptions": [], "covers_total": 0,
         "covers_satisfied": 0, "solver_s": None, "stubs_applied": []}
    m = re.search(r"\*\* (\d+) of (\d+) failed", txt)
    if m:
        r["checks_failed"], r["checks_total"] = int(m.group(1)), int(m.group(2))
    m = re.search(r"\*\* (\d+) of (\d+) cover properties satisfied", txt)
    if m:
        r["covers_satisfied"], r["covers_total"] = int(m.group(1)), int(m.group(2))
    m = re.search(r"Verification Time: ([0-9.]+)s", txt)
    if m:
        r["solver_s"] = float(m.group(1))
    r["failed_descriptions"] = re.findall(r"Failed Checks: (.*)", txt)[:20]
    r["stubs_applied"] = sorted(set(re.findall(r"- Stub: (.*)", txt)))
    ran = ("Checking harness " + h.name) in txt
    if timed_out:
        r["status"] = "timeout"
    elif "out of memory" in txt.lower() or "std::bad_alloc" in txt or "Status: ERROR" in txt or "CBMC failed" in txt:
        r["status"] = "error"
        r["detail"] = "out of memory / CBMC error"
    elif not ran:
        r["status"] = "build_error"
        errs = [l for l in lines if l.startswith("error")]
        r["detail"] = "; ".join(errs[:5]) or "harness not found or build failed (rc=%s)" % rc
    elif "VERIFICATION:- SUCCESSFUL" in txt:
        if h.covers is not None:
            # explicit minimum: some witnesses are statically dead in a size/option instance
            if r["covers_satisfied"] < h.covers:
                r["status"] = "vacuous"
                r["detail"] = "covers satisfied %d of %d (expected >= %s)" % (r["covers_satisfied"], r["covers_total"], h.covers)
        elif r["covers_total"] and r["covers_satisfied"] < r["covers_total"]:
            r["status"] = "vacuous"
            r["detail"] = "covers satisfied %d of %d" % (r["covers_satisfied"], r["covers_total"])
        if r["status"] is None:
            r["status"] = "pass"
    elif "VERIFICATION:- FAILED" in txt and not r["failed_descriptions"] and r["checks_failed"] == 0:
        r["status"] = "error"
        r["detail"] = "CBMC ended without a verdict (FAILED with no failed check: killed by the memory cap or crashed)"
    elif "VERIFICATION:- FAILED" in txt:
        descs = r["failed_descriptions"]
        if descs and all("unwinding assertion" in d for d in descs):
            r["status"] = "unwind"   # bound too small: harness defect, inconclusive
            r["detail"] = "unwinding assertion failed: the harness bound is too small for this tree"
        else:
            r["status"] = "fail"
    else:
        r["status"] = "error"
        r["detail"] = "no verdict in output (rc=%s)" % rc
    return r


def playback(scratch, h, res):
    """Counterexample -> Kani concrete-playback unit test -> run against the native build in the
    dev and release profiles.  Returns (reproduced: bool|None, saved replay path, detail)."""
    spec = BUILDS[h.build]
    cdir = os.path.normpath(os.path.join(scratch.src, spec["dir"]))
    if not h.playback:
        # model-level builds (slice / agentshim): the counterexample is over the environment model;
        # there is no faithful native playback, the failed checks and the query are what is saved
        rdir = os.environ.get("VERIF_REPLAY_DIR") or os.path.join(VERIF, "replays")
        os.makedirs(rdir, exist_ok=True)
        rpath = os.path.join(rdir, "%s.replay.txt" % h.name.split("::")[-1])
        detail = "model-level counterexample (the query uses stubs/models that a native playback cannot apply: %s; re-run: bin/check <ID> --only %s)" % ("; ".join(x.split(" -> ")[0] for x in h.stubs)[:200], h.name.split("::")[-1])
        with open(rpath, "w") as f:
            f.write("\n".join(["harness: " + h.name, "build: " + h.build, "bounds: " + h.bounds, "failed checks:"] + ["  " + d for d in res["failed_descriptions"]] + ["", detail]) + "\n")
        return None, rpath, detail
    r2 = run_kani(scratch, h, extra=["-Z", "concrete-playback", "--concrete-playback=print"],
                  timeout=h.timeout * 2, logname=h.name.replace("::", "__") + ".playback")
    log = open(r2["log"], errors="replace").read()
    # one test per failed check AND per satisfied cover is printed: keep the failing checks' tests
    blocks = [b for b in re.findall(r"```\n(.*?)```", log, re.S) if "Check for `cover`" not in b]
    m = None
    if blocks:
        class _M:
            def __init__(self, t):
                self.t = t

            def group(self, i):
                return self.t
        m = _M("\n".join(blocks[:3]))
    rdir = os.environ.get("VERIF_REPLAY_DIR") or os.path.join(VERIF, "replays")
    os.makedirs(rdir, exist_ok=True)
    short = h.name.split("::")[-1]
    rpath = os.path.join(rdir, "%s.replay.txt" % short)
    body = ["harness: " + h.name, "failed checks:"] + ["  " + d for d in res["failed_descriptions"]]
    reproduced = None
    detail = ""
    if not m:
        detail = "no concrete playback test was produced"
    else:
        test = m.group(1)
        body += ["", "concrete playback test (Kani):", test]
        if h.playback:
            # append the test to the harness module in the scratch copy and run it natively
            tname = re.search(r"fn (kani_concrete_playback_\w+)", test)
            tnames = re.findall(r"fn (kani_concrete_playback_\w+)", test)
            hfile = None
            for anchor, hf in spec["inject"]:
                if hf[:-3] == h.name.split("::")[-2]:
                    hfile = os.path.join(cdir, os.path.dirname(anchor), hf)
            if tname and hfile and os.path.exists(hfile):
                with open(hfile, "a") as f:
                    f.write("\n" + test + "\n")
                write_cfg_rs(os.path.join(cdir, "src", "verif_cfg.rs"), native=True)
                outs = []
                reproduced = False
                for prof in ([], ["--release"]):
                    cmd = ["cargo", "kani", "playback", "-Z", "concrete-playback"]
                    if spec["features"]:
                        cmd += ["--features", spec["features"]]
                    cmd += ["--", "kani_concrete_playback_"]
                    env = dict(os.environ, CARGO_NET_OFFLINE="true",
                               CARGO_TARGET_DIR=os.path.join(scratch.base, "tgt_playback"))
                    if prof:
                        # `cargo kani playback` has no --release: give the dev/test profile the
                        # release profile's settings instead
                        for pn in ("DEV", "TEST"):
                            env["CARGO_PROFILE_%s_OPT_LEVEL" % pn] = "3"
                            env["CARGO_PROFILE_%s_DEBUG_ASSERTIONS" % pn] = "false"
                            env["CARGO_PROFILE_%s_OVERFLOW_CHECKS" % pn] = "false"
                    pr = subprocess.run(cmd, cwd=cdir, env=env, stdout=subprocess.PIPE,
                                        stderr=subprocess.STDOUT, text=True, timeout=1800)
                    failed = ("test result: FAILED" in pr.stdout) or ("panicked at" in pr.stdout)
                    ok = "test result: ok" in pr.stdout
                    outs.append("profile %s: %s" % ("release" if prof else "dev",
                                                     "REPRODUCED (native test fails)" if failed else
                                                     ("not reproduced" if ok else "playback did not run")))
                    tail = [l for l in pr.stdout.splitlines() if "panicked" in l or "assert" in l][:5]
                    outs += ["    " + l for l in tail]
                    if failed:
                        reproduced = True
                write_cfg_rs(os.path.join(cdir, "src", "verif_cfg.rs"), native=False)
                body += ["", "native replay:"] + outs
                detail = "; ".join(o for o in outs if o.startswith("profile"))
            else:
                detail = "playback test could not be placed"
        else:
            detail = "model-level counterexample (harness uses nondeterministic stubs; playback not faithful)"
            body += ["", detail]
    with open(rpath, "w") as f:
        f.write("\n".join(body) + "\n")
    return reproduced, rpath, detail


TOOL_FAILURES = ("rust_dealloc must be called on an object whose allocated size matches its layout", "free argument", "dereference failure: pointer invalid",
                 "dereference failure: pointer NULL", "dereference failure: deallocated dynamic object", "dereference failure: dead object",
                 "dereference failure: pointer outside object bounds", "dereference failure: invalid integer address",
                 "Kani does not support reasoning about pointer to unallocated memory", "double free", "free called for")


def only_memory_model_failures(descs):
    """True when the failed checks include one of CBMC's memory-model checks (deallocation layout, invalid / NULL pointer).
    In such a state other assertions fail as well (the memory they read is garbage), so ONE memory-model failure is enough
    to distrust the whole result: the code under test is safe Rust and the harnesses index their ghost arrays with bounds
    checks, so a genuine violation never comes with one."""
    return bool(descs) and any(any(t in d for t in TOOL_FAILURES) for d in descs)


def module_file_of(h):
    """file name of the harness module a query lives in (the path component before the function name)"""
    parts = h.name.split("::")
    return (parts[-2] if len(parts) >= 2 else parts[0]) + ".rs"


def failing_harness_files(logpath, build):
    """harness module files named in the compiler's error locations of a failed build"""
    try:
        txt = open(logpath, errors="replace").read()
    except OSError:
        return []
    spec = BUILDS[build]
    names = set(hf for _a, hf in spec.get("inject", []))
    bad = []
    # error[E....]: ...\n   --> path/to/file.rs:line:col
    for m in re.finditer(r"^error(?:\[E\d+\])?:.*?\n\s+--> ([^\s:]+):\d+", txt, re.M):
        f = os.path.basename(m.group(1))
        if f in names and f not in bad:
            bad.append(f)
    return bad


def blank_harness_file(scratch, build, fname):
    spec = BUILDS[build]
    cdir = os.path.normpath(os.path.join(scratch.src, spec["dir"]))
    for anchor, hf in spec["inject"]:
        if hf == fname:
            path = os.path.join(cdir, os.path.dirname(anchor), hf)
            with open(path, "w") as f:
                f.write("// dropped by the driver: this harness module does not compile against the tree under check\n")
    scratch.tgt_free[build] = scratch.tgt_free.get(build, [])


def mem_available_gb():
    try:
        for l in open("/proc/meminfo"):
            if l.startswith("MemAvailable:"):
                return int(l.split()[1]) / 1048576.0
    except OSError:
        pass
    return 1e9


class MemBudget:
    """Memory budget shared by the worker threads of one check.  A job takes its whole share in ONE
    step (taking it unit by unit from a counting semaphore can deadlock: several workers each hold
    a part and none can complete).  Before starting, a job also waits (bounded) until the machine
    actually has that much memory available, so that two checks started side by side do not push
    each other into the out-of-memory killer."""

    def __init__(self, total):
        self.avail = total
        self.cond = threading.Condition()

    def acquire(self, n):
        with self.cond:
            while self.avail < n:
                self.cond.wait()
            self.avail -= n
        waited = 0
        while mem_available_gb() < n + 2 and waited < 900:
            time.sleep(5)
            waited += 5

    def release(self, n):
        with self.cond:
            self.avail += n
            self.cond.notify_all()


def run_property(prop, harnesses, tier, meta, only=None, workers=None, mem_total_gb=44, extra=None):
    """Run all harnesses of a property for a tier, print verdict lines, write evidence."""
    t_start = time.time()
    seed = int(os.environ.get("VERIF_SEED", "0") or 0)
    hs = [h for h in harnesses if tier == "thorough" or h.tier == "quick"]
    if only:
        hs = [h for h in hs if any(o in h.name for o in only)]
    open_kf = {e["key"]: e for e in open_findings(prop)}
    # twins of findings that are not listed as open are not run at all
    hs = [h for h in hs if not h.expect_fail or (h.finding in open_kf)]
    scratch = Scratch(prop)
    results = []
    exit_code = 0
    out_lines = []
    info = {}
    extra_info = {}
    try:
        scratch.create()
        builds = sorted(set(h.build for h in hs))
        info = inject(scratch, builds)
        # warm one target dir per build sequentially (compiles dependencies once), then fan out
        budget = MemBudget(mem_total_gb)

        def job(h):
            n = min(max(1, h.mem_gb), mem_total_gb)
            budget.acquire(n)
            try:
                return h, run_kani(scratch, h)
            finally:
                budget.release(n)

        nw = workers or int(os.environ.get("VERIF_JOBS", "8"))
        # without a warm cache, run the first harness of each build alone so that its target dir
        # (compiled dependencies) can be cloned for the other workers
        first = {}
        for h in sorted(hs, key=lambda x: (x.timeout, x.mem_gb)):
            # the probe of a build is its cheapest query (it runs alone)
            first.setdefault(h.build, h)
        done = []
        broken = {}
        dropped = {}   # harness module (file stem) -> reason, per build
        for b, h in first.items():
            hr = job(h)
            # a harness module that no longer compiles against this tree (a private signature it calls
            # changed) is dropped and the build retried, so that the other queries still run
            rounds = 0
            while hr[1]["status"] == "build_error" and rounds < 4:
                bad = failing_harness_files(hr[1]["log"], b)
                bad = [f for f in bad if f not in dropped.get(b, {})]
                if not bad:
                    break
                for f in bad:
                    blank_harness_file(scratch, b, f)
                    dropped.setdefault(b, {})[f] = hr[1].get("detail", "")
                # a first harness that lives in a dropped module cannot be the probe any more
                cand = [x for x in hs if x.build == b and module_file_of(x) not in dropped[b]]
                if not cand:
                    break
                h = cand[0]
                first[b] = h
                hr = job(h)
                rounds += 1
            done.append(hr)
            if hr[1]["status"] == "build_error":
                broken[b] = hr[1]
            elif scratch.template(b) is None:
                scratch.make_template(b)
        for h in hs:
            if h.build in dropped and module_file_of(h) in dropped[h.build] and h not in [x[0] for x in done]:
                r = {"harness": h.name, "wall_s": 0, "log": "", "status": "build_error", "checks_total": 0, "checks_failed": 0,
                     "failed_descriptions": [], "covers_total": 0, "covers_satisfied": 0, "solver_s": None, "stubs_applied": [],
                     "detail": "harness module %s does not compile against this tree (%s): dropped, the other queries were run" % (module_file_of(h), dropped[h.build][module_file_of(h)][:200])}
                done.append((h, r))
        for h in hs:
            if h.build in broken and h is not first[h.build]:
                r = dict(broken[h.build])
                r["harness"] = h.name
                done.append((h, r))
        rest = [h for h in hs if h not in [d[0] for d in done]]
        # long ones first
        rest.sort(key=lambda h: -h.timeout)
        with cf.ThreadPoolExecutor(max_workers=nw) as ex:
            for h, r in ex.map(job, rest):
                done.append((h, r))
        order = {h.name: i for i, h in enumerate(hs)}
        done.sort(key=lambda hr: order[hr[0].name])

        # confirmation re-runs of failed queries, all at once (fresh target dirs; clean rebuild without the template
        # when only memory-model checks failed): nothing is reported from a single failing run
        to_confirm = [(h, r) for h, r in done if r["status"] == "fail" and not h.expect_fail]
        confirm_runs = {}
        if to_confirm:
            with scratch.lock:
                scratch.tgt_free = {}
            scratch.no_template = any(only_memory_model_failures(r["failed_descriptions"]) for _h, r in to_confirm)

            def cjob(hr):
                h_, _r = hr
                n_ = min(max(1, h_.mem_gb), mem_total_gb)
                budget.acquire(n_)
                try:
                    return h_.name, run_kani(scratch, h_, logname=h_.name.replace("::", "__") + ".confirm")
                finally:
                    budget.release(n_)
            with cf.ThreadPoolExecutor(max_workers=nw) as ex:
                for name_, rr in ex.map(cjob, to_confirm):
                    confirm_runs[name_] = rr
            scratch.no_template = False

        for h, r in done:
            r.update({"build": h.build, "tier": h.tier, "bounds": h.bounds, "functions": h.funcs,
                      "stubs": h.stubs})
            st = r["status"]
            if h.expect_fail:
                e = open_kf[h.finding]
                if st == "fail":
                    out_lines.append("KNOWN-FINDING: property=%s %s" % (prop, e["what"]))
                    r["verdict"] = "known-finding reproduced"
                elif st == "pass":
                    out_lines.append("NOTE: known finding '%s' no longer reproduces (twin harness %s passes)" % (e["key"], h.name))
                    r["verdict"] = "known-finding not reproduced"
                else:
                    r["verdict"] = "inconclusive"
                    exit_code = max(exit_code, 2) if exit_code != 1 else 1
                    out_lines.append("INCONCLUSIVE %s: %s %s" % (h.name, st, r.get("detail", "")))
            elif st == "pass":
                r["verdict"] = "holds within bound"
            elif st == "fail" and not r.get("confirmed"):
                # a failed query must fail again on an immediate re-run in a fresh target dir before
                # anything is reported (observed once: memory-safety checks of a model-level query
                # failing in one run and the identical query succeeding in the next)
                scratch.tgt_free[h.build] = []
                tool_only = only_memory_model_failures(r["failed_descriptions"])
                if tool_only:
                    # Only CBMC memory-model checks failed (deallocation layout, invalid / NULL pointer) and no
                    # assertion, panic or arithmetic check: the code under test is safe Rust (no `unsafe` in
                    # stun-rs / stun-agent), so this cannot come from it.  Seen as an artefact of a damaged build
                    # state: re-run from a completely clean target directory (no template, full rebuild).
                    scratch.no_template = True
                r_again = confirm_runs.get(h.name) or run_kani(scratch, h, logname=h.name.replace("::", "__") + ".confirm")
                scratch.no_template = False
                if tool_only and r_again["status"] == "fail" and only_memory_model_failures(r_again["failed_descriptions"]):
                    # third attempt: a brand-new scratch copy of the working tree with freshly injected harnesses
                    try:
                        sc2 = Scratch(prop + "-retry")
                        sc2.base = scratch.base + ".retry"
                        sc2.src = os.path.join(sc2.base, "src")
                        sc2.no_template = True
                        shutil.rmtree(sc2.base, ignore_errors=True)
                        os.makedirs(sc2.base)
                        subprocess.check_call(["rsync", "-a", "--exclude", "/target", "--exclude", ".git", REPO + "/", sc2.src + "/"])
                        inject(sc2, builds)
                        r_third = run_kani(sc2, h, logname=h.name.replace("::", "__") + ".retry")
                    except Exception as ex:   # noqa: BLE001
                        r_third = {"status": "error", "detail": repr(ex), "failed_descriptions": []}
                    finally:
                        shutil.rmtree(scratch.base + ".retry", ignore_errors=True)
                    if r_third["status"] == "pass":
                        r["verdict"] = "memory-model checks failed twice in the first scratch copy, SUCCESSFUL in a fresh scratch copy: not reported"
                        r["flaky_first_failure"] = r["failed_descriptions"]
                        r["status"] = "pass"
                        r["checks_total"], r["checks_failed"] = r_third.get("checks_total", 0), 0
                        out_lines.append("NOTE %s: only memory-model checks failed (%s); verified SUCCESSFUL from a fresh scratch copy; not reported" % (h.name, "; ".join(r["flaky_first_failure"][:2])[:160]))
                        results.append(r)
                        continue
                    r["verdict"] = "inconclusive"
                    r["status"] = "error"
                    r["detail"] = "only memory-model checks of the model checker failed, twice, the second time after a clean rebuild (%s); no assertion of the harness failed; not attributable to the (safe Rust) code under test" % "; ".join(r_again["failed_descriptions"][:2])
                    if exit_code != 1:
                        exit_code = 2
                    out_lines.append("INCONCLUSIVE %s: %s" % (h.name, r["detail"]))
                    results.append(r)
                    continue
                if r_again["status"] == "pass":
                    r["verdict"] = "failed once, SUCCESSFUL on re-run: not reported"
                    r["flaky_first_failure"] = r["failed_descriptions"]
                    r["status"] = "pass"
                    r["checks_total"], r["checks_failed"] = r_again["checks_total"], 0
                    out_lines.append("NOTE %s: failed once (%s) and verified SUCCESSFUL on re-run; not reported" % (h.name, "; ".join(r["flaky_first_failure"][:2])[:160]))
                    results.append(r)
                    continue
                r["confirmed"] = True
                r["failed_descriptions"] = r_again["failed_descriptions"] or r["failed_descriptions"]
                rep, rpath, detail = playback(scratch, h, r)
                r["replay"] = rpath
                r["replay_detail"] = detail
                if rep is False:
                    # counterexample does not reproduce natively: encoding/stub problem
                    r["verdict"] = "counterexample not reproduced natively"
                    if exit_code != 1:
                        exit_code = 2
                    out_lines.append("INCONCLUSIVE %s: solver counterexample did not reproduce natively (%s) see %s" % (h.name, detail, rpath))
                else:
                    r["verdict"] = "violation"
                    exit_code = 1
                    out_lines.append("VIOLATION property=%s replay=%s" % (prop, rpath))
                    out_lines.append("  harness %s: %s  [%s]" % (h.name, "; ".join(r["failed_descriptions"][:3]), detail))
            else:
                r["verdict"] = "inconclusive"
                if exit_code != 1:
                    exit_code = 2
                if st == "build_error" and any(l.startswith("INCONCLUSIVE build") for l in out_lines):
                    pass
                elif st == "build_error":
                    out_lines.append("INCONCLUSIVE build of '%s' with the injected harnesses failed: %s" % (h.build, r.get("detail", "")))
                else:
                    out_lines.append("INCONCLUSIVE %s: %s %s" % (h.name, st, r.get("detail", "")))
                if os.environ.get("VERIF_KEEP") is None:
                    # keep the tail of the log for diagnosis
                    keep = os.path.join(VERIF, "evidence", "logs")
                    os.makedirs(keep, exist_ok=True)
                    try:
                        lines = [l for l in open(r["log"], errors="replace") if not RE_NOISE.match(l)]
                        with open(os.path.join(keep, h.name.replace("::", "__") + ".log"), "w") as f:
                            f.writelines(lines[-200:])
                    except OSError:
                        pass
            results.append(r)
        # second engine (C14: MIR -> SMT for the 64 KiB accumulator), unless a harness subset was asked for
        if extra and extra.get("mir2smt") and not only:
            from . import mir2smt
            st_, minfo, mlines = mir2smt.run(scratch, VERIF)
            extra_info["mir2smt"] = minfo
            out_lines.extend(mlines)
            if st_ == "violation":
                exit_code = 1
            elif st_ == "inconclusive" and exit_code != 1:
                exit_code = 2
    except Exception as e:  # driver failure is never a pass
        import traceback
        traceback.print_exc()
        out_lines.append("INCONCLUSIVE driver error: %r" % (e,))
        if exit_code != 1:
            exit_code = 2
    finally:
        scratch.destroy()

    # string stubs' contract (checked natively by bin/setup): a failed contract makes every query that
    # relies on precis_ascii / qs_plain inconclusive
    stub_contract = None
    try:
        with open(os.path.join(CACHE, "stub_contract.json")) as f:
            stub_contract = json.load(f)
    except (OSError, ValueError):
        pass
    if stub_contract is not None and not stub_contract.get("ok") and any("precis_ascii" in " ".join(h.stubs) or "qs_plain" in " ".join(h.stubs) for h in hs):
        out_lines.append("INCONCLUSIVE the native differential check of the string stubs' contract failed in bin/setup: %s" % stub_contract.get("tail", "")[-160:])
        if exit_code != 1:
            exit_code = 2
    wall = time.time() - t_start
    n_pass = sum(1 for r in results if r["status"] == "pass")
    viol = sum(1 for r in results if r.get("verdict") == "violation")
    if extra_info.get("mir2smt", {}).get("status") == "violation":
        viol += len(extra_info["mir2smt"].get("replays", []))
    samples = []
    byname = {r["harness"]: r for r in results}
    for h in hs[:6]:
        r = byname.get(h.name, {})
        samples.append({"harness": h.name, "bounds": h.bounds,
                        "sample": h.sample or ("one SAT query over every input within: " + (h.bounds or "the harness's stated bounds")),
                        "verdict": r.get("verdict"), "checks_discharged": r.get("checks_total"), "covers_satisfied": r.get("covers_satisfied"), "solver_s": r.get("solver_s")})
    ev = {
        "property_id": prop,
        "tier": tier,
        "seed": seed,
        "level": "model_checking",
        "coverage": {
            "evaluations": len(results),
            "distinct_nontrivial": sum(1 for r in results if r["status"] == "pass" and (r["checks_total"] > 0)),
            "rule": "one evaluation = one bounded model checking query (cargo kani harness over kani::any() inputs, CBMC+CaDiCaL); "
                    "non-trivial = verdict SUCCESSFUL with >=1 CBMC check discharged and every kani::cover! reachability witness SATISFIED; "
                    "each harness is distinct by name (different function, size instance or option set)",
            "samples": samples,
            "queries": results,
            "queries_passed": n_pass,
            "checks_discharged": sum(r["checks_total"] - r["checks_failed"] for r in results if r["status"] == "pass"),
            "covers_satisfied": sum(r["covers_satisfied"] for r in results),
            "solver_time_s": round(sum(r["solver_s"] or 0 for r in results), 2),
            "functions_encoded": sorted(set(f for r in results for f in r.get("functions", []))),
            "bounds": sorted(set(r["bounds"] for r in results if r.get("bounds"))),
            "stubs": sorted(set(s for r in results for s in r.get("stubs", []))),
            "outside_bounds": meta.get("outside", ""),
            "engine": "kani 0.68.0 / CBMC 6.11.0 / CaDiCaL; unwinding assertions ON",
            "exhaustive": False,
            "exit_code": exit_code,
            "known_findings_listed": [e["key"] for e in open_kf.values()],
            "generated": info if isinstance(info, dict) else {},
            "second_engine": extra_info,
            "string_stub_contract": stub_contract if stub_contract is not None else "not checked (bin/setup was not run)",
        },
        "assumptions": meta.get("assumptions", []),
        "wall_s": round(wall, 2),
        "violations": viol,
    }
    evdir = os.environ.get("VERIF_EVIDENCE_DIR") or os.path.join(VERIF, "evidence")
    if not os.environ.get("VERIF_EVIDENCE_DIR") and (only or os.environ.get("VERIF_DEV") or os.environ.get("VERIF_INJECT_TOOLFAIL")):
        # a partial run (--only / development loop / driver self-test) must not replace the record of the full check
        evdir = os.path.join(VERIF, "evidence", "partial")
    os.makedirs(evdir, exist_ok=True)
    with open(os.path.join(evdir, prop + ".json"), "w") as f:
        json.dump(ev, f, indent=1)
    for l in out_lines:
        print(l)
    print("%s tier=%s queries=%d passed=%d violations=%d wall=%.0fs exit=%d" %
          (prop, tier, len(results), n_pass, viol, wall, exit_code))
    return exit_code
