"""Runs one command in its own process group and takes the whole group down when the driver goes away.

The driver starts `python3 guard.py <cmd...>`.  The guard asks the kernel to send it SIGTERM when its parent
dies (PR_SET_PDEATHSIG) - also when the parent is killed with SIGKILL, e.g. by an outer time limit - and then
kills the command's process group (cargo-kani, kani-driver, cbmc).  Without this, a check that is stopped from
outside leaves its solver processes running for many minutes, which slows down and starves the checks that follow.
"""
import ctypes
import os
import signal
import subprocess
import sys


def main():
    try:
        ctypes.CDLL("libc.so.6", use_errno=True).prctl(1, signal.SIGTERM, 0, 0, 0)   # PR_SET_PDEATHSIG
    except OSError:
        pass
    if os.getppid() == 1:
        return 1   # the driver is already gone
    p = subprocess.Popen(sys.argv[1:], preexec_fn=os.setsid)

    def down(_sig, _frm):
        try:
            os.killpg(p.pid, signal.SIGKILL)
        except ProcessLookupError:
            pass
        os._exit(143)

    signal.signal(signal.SIGTERM, down)
    signal.signal(signal.SIGINT, down)
    signal.signal(signal.SIGHUP, down)
    return p.wait()


if __name__ == "__main__":
    sys.exit(main())
