"""Generates /verif/MANIFEST.json from the property table (run: python3 -m rv.manifest)."""
import json
import os
import sys

from . import props
from .driver import VERIF

LEVEL_TEXT = {}
NOTE = {}
TECH = {}
NA = {}


def build():
    checks = []
    for pid in sorted(props.PROPS):
        d = props.DESCR[pid]
        checks.append({
            "property_id": pid,
            "quick_cmd": "bin/check %s --tier quick" % pid,
            "thorough_cmd": "bin/check %s --tier thorough" % pid,
            "evidence_file": "/verif/evidence/%s.json" % pid,
            "replay_cmd_template": "bin/check %s --replay {path}" % pid,
            "engine": d.get("engine", "kani"),
            "level_claimed": {"category": "model_checking", "text": d["level"], "design_ref": d.get("ref", "DESIGN.md §3 " + pid)},
            "level_note": d["note"],
            "technique": d.get("technique", "bounded model checking of the real Rust code (Kani/CBMC, SAT verdict over all inputs within the stated bounds)"),
        })
    na = [{"property_id": p, "reason": r} for p, r in sorted(props.NOT_APPLICABLE.items()) if p not in props.PROPS]
    m = {
        "version": 1,
        "setup_cmd": "bin/setup",
        "hooks": {
            "guard": "cfg(kani)",
            "enable": "harness modules are injected into a scratch copy of /repo's working tree (`#[cfg(kani)] #[path=..] mod verif_x;` appended to the anchored file) and built by `cargo kani`; nothing is committed to /repo for instrumentation",
            "baseline_off_cmd": "cd /repo && cargo test --workspace --no-fail-fast --offline",
            "source_commits": [],
            "add_only": True,
        },
        "engines": [
            {"name": "kani", "path": "/verif/lib/rv/driver.py", "serves_properties": sorted(props.PROPS),
             "kind_free_text": "Kani 0.68 (CBMC 6.11 + CaDiCaL) bounded model checking of harnesses injected into a copy of the working tree"},
            {"name": "mir2smt", "path": "/verif/lib/rv/mir2smt.py", "serves_properties": ["C14"],
             "kind_free_text": "translation of the compiler's MIR of MessageEncoder::encode (nightly -Zunpretty=mir, dev and release profiles) into SMT-LIB2 bit-vectors: one loop iteration + epilogue from an arbitrary accumulator value; z3 4.8.12 decides, sat answers cross-checked with cvc5 1.0 and replayed natively"},
        ],
        "checks": checks,
        "not_applicable": na,
        "notes": "Exit 0 = every query SUCCESSFUL with all reachability covers satisfied; exit 1 = VIOLATION (counterexample replayed natively where the harness has no nondeterministic stub); exit 2 = inconclusive (build failure, time/memory cap, non-reproducing counterexample, or a result containing memory-model failures of the model checker that persists after a clean rebuild in a fresh copy). Known findings: /verif/known_findings.json.",
    }
    return m


if __name__ == "__main__":
    m = build()
    with open(os.path.join(VERIF, "MANIFEST.json"), "w") as f:
        json.dump(m, f, indent=1)
    print("checks:", [c["property_id"] for c in m["checks"]], "n/a:", [n["property_id"] for n in m["not_applicable"]])
